package main

// Bit-slice normal form for bvor: byte-wise (de)serialisation code builds words as
// x0 | x1<<8 | ... and takes them apart again with shifts and masks. Both directions are
// concat/extract/zero-extend shapes joined by bvor over disjoint bit ranges; merging them into one
// concat of extracts lets pack/unpack round trips collapse syntactically (extract(x,h,m+1) ++
// extract(x,m,l) = extract(x,h,l)) instead of reaching the solver as bit-level puzzles mixed with
// arithmetic.

type bitSeg struct {
	src    *Term // nil: constant
	hi, lo uint8 // bits of src
	w      uint8
	val    uint64 // constant value (w bits)
}

const maxSegs = 24

// segsOf decomposes t into segments, most significant first. ok=false if too fragmented.
func segsOf(t *Term, out []bitSeg) ([]bitSeg, bool) {
	if len(out) > maxSegs {
		return out, false
	}
	switch t.op {
	case OpConst:
		return append(out, bitSeg{w: t.w, val: t.val}), true
	case OpConcat:
		out, ok := segsOf(t.a, out)
		if !ok {
			return out, false
		}
		return segsOf(t.b, out)
	case OpZExt:
		out = append(out, bitSeg{w: t.w - t.a.w})
		return segsOf(t.a, out)
	case OpExtract:
		return append(out, bitSeg{src: t.a, hi: uint8(t.val >> 8), lo: uint8(t.val & 0xff), w: t.w}), true
	}
	return append(out, bitSeg{src: t, hi: t.w - 1, lo: 0, w: t.w}), true
}

// top returns the upper k bits of s and the rest.
func (s bitSeg) split(k uint8) (bitSeg, bitSeg) {
	if s.src == nil {
		rest := s.w - k
		return bitSeg{w: k, val: s.val >> rest}, bitSeg{w: rest, val: s.val & mask(rest)}
	}
	return bitSeg{src: s.src, hi: s.hi, lo: s.hi - k + 1, w: k}, bitSeg{src: s.src, hi: s.hi - k, lo: s.lo, w: s.w - k}
}

// mergeOrSegs returns the segments of a|b if on every bit range one side is constant zero, both
// are constants, or both are the same bits of the same term.
func mergeOrSegs(sa, sb []bitSeg) ([]bitSeg, bool) {
	var out []bitSeg
	i, j := 0, 0
	var ca, cb bitSeg
	haveA, haveB := false, false
	for {
		if !haveA {
			if i == len(sa) {
				break
			}
			ca, haveA = sa[i], true
			i++
		}
		if !haveB {
			if j == len(sb) {
				return nil, false
			}
			cb, haveB = sb[j], true
			j++
		}
		k := ca.w
		if cb.w < k {
			k = cb.w
		}
		var xa, xb bitSeg
		if ca.w == k {
			xa, haveA = ca, false
		} else {
			xa, ca = ca.split(k)
		}
		if cb.w == k {
			xb, haveB = cb, false
		} else {
			xb, cb = cb.split(k)
		}
		switch {
		case xa.src == nil && xb.src == nil:
			out = append(out, bitSeg{w: k, val: xa.val | xb.val})
		case xa.src == nil && xa.val == 0:
			out = append(out, xb)
		case xb.src == nil && xb.val == 0:
			out = append(out, xa)
		case xa.src != nil && xa.src == xb.src && xa.hi == xb.hi && xa.lo == xb.lo:
			out = append(out, xa)
		default:
			return nil, false
		}
		if len(out) > 2*maxSegs {
			return nil, false
		}
	}
	if haveB || j != len(sb) {
		return nil, false
	}
	// coalesce
	res := out[:0]
	for _, s := range out {
		if n := len(res); n > 0 {
			p := &res[n-1]
			if p.src == nil && s.src == nil && p.w+s.w <= 64 {
				p.val = p.val<<s.w | s.val
				p.w += s.w
				continue
			}
			if p.src != nil && p.src == s.src && p.lo == s.hi+1 {
				p.lo = s.lo
				p.w += s.w
				continue
			}
		}
		res = append(res, s)
	}
	return res, true
}

func (tt *TermTable) fromSegs(segs []bitSeg) *Term {
	var r *Term
	for i := len(segs) - 1; i >= 0; i-- {
		s := segs[i]
		var t *Term
		if s.src == nil {
			t = tt.Const(s.w, s.val)
		} else {
			t = tt.Extract(s.src, s.hi, s.lo)
		}
		if r == nil {
			r = t
		} else {
			r = tt.Concat(t, r)
		}
	}
	return r
}

// mergeOr returns a normalised term for a|b, or nil if the operands are not bit-disjoint
// compositions.
func (tt *TermTable) mergeOr(a, b *Term) *Term {
	composite := func(t *Term) bool {
		return t.op == OpConcat || t.op == OpZExt || t.op == OpExtract
	}
	if !composite(a) && !composite(b) {
		return nil
	}
	sa, ok := segsOf(a, nil)
	if !ok {
		return nil
	}
	sb, ok := segsOf(b, nil)
	if !ok {
		return nil
	}
	m, ok := mergeOrSegs(sa, sb)
	if !ok {
		return nil
	}
	return tt.fromSegs(m)
}
