//go:build verif_harness

package hh

// C04-K4 / C04-K5: the two NodeProcessor kernels around the queue.
//
// SplitBatch: NodeProcessor.WriteShard bisects a batch whose marshalled form does not fit one
// block. The blocks it appends must be consecutive ranges of the batch, in order, nothing lost
// or duplicated, and the only reason to refuse is a single point that no segment can hold.
// Marshalled sizes are around the real 10 MB segment limit: in the engine marshalWrite and
// queue.Append are length-level models (a block is its point ids and its length; an empty
// segment holds maxSegmentSize-footerSize bytes), natively the real marshalWrite and the real
// queue on a temp directory run with real 3..11 MB points and the queue is drained and decoded.
//
// SendLoop: NodeProcessor.SendWrite over the real queue: a block leaves the queue only after
// the target accepted it or rejected it permanently, a retryable failure leaves it at the head
// and it is offered again, blocks are offered in acceptance order, an inactive node consumes
// nothing.

import (
	"errors"
	"io"
	"os"

	"github.com/influxdata/influxdb/models"
	"github.com/influxdata/influxdb/services/meta"
)

func init() {
	vRegister("VerifHarness_C04_SplitBatch", VerifHarness_C04_SplitBatch)
	vRegister("VerifHarness_C04_SendLoop", VerifHarness_C04_SendLoop)
	vRegister("VerifHarness_C04_BlockFillsSegment", VerifHarness_C04_BlockFillsSegment)
}

// a point of which only the marshalled form matters: size bytes, the first one is its id
type vC04BigPoint struct {
	models.Point
	id   byte
	size int
}

func (p *vC04BigPoint) MarshalBinary() ([]byte, error) {
	b := make([]byte, p.size)
	b[0] = p.id
	return b, nil
}

type vC04Blk struct {
	ids []byte
	n   int // block length in bytes
}

// engine-side record of what the models of marshalWrite / queue.Append saw
var (
	vC04LastIDs  []byte
	vC04Appended []vC04Blk
)

// engine model of marshalWrite: the length the real one produces (8-byte shard id, then a 4-byte
// length prefix per point) over an unallocated buffer
func vC04MarshalWriteModel(shardID uint64, points []models.Point) []byte {
	n := 8
	ids := make([]byte, 0, len(points))
	for _, p := range points {
		bp := p.(*vC04BigPoint)
		n += 4 + bp.size
		ids = append(ids, bp.id)
	}
	vC04LastIDs = ids
	return make([]byte, n)
}

// engine model of queue.Append on a queue whose tail segment is empty or gets replaced by an
// empty one: the block is accepted iff an empty segment can hold it (segment.append refuses when
// size(=footerSize) + len(b) > maxSize; queue.Append retries once on a fresh segment)
func vC04AppendModel(q *queue, b []byte) error {
	if int64(footerSize)+int64(len(b)) > q.maxSegmentSize {
		return ErrSegmentFull
	}
	vC04Appended = append(vC04Appended, vC04Blk{ids: vC04LastIDs, n: len(b)})
	return nil
}

// what the queue holds, block by block (native: drain the real queue and decode)
func vC04Blocks(q *queue) []vC04Blk {
	var out []vC04Blk
	for {
		b, err := vC04Next(q)
		if err != nil {
			return out
		}
		_, pts, uerr := unmarshalWrite(b)
		if uerr != nil {
			panic(uerr)
		}
		blk := vC04Blk{n: len(b)}
		for _, pb := range pts {
			blk.ids = append(blk.ids, pb[0])
		}
		out = append(out, blk)
		if q.Advance() != nil {
			return out
		}
	}
}

func vC04BlocksModel(q *queue) []vC04Blk { return vC04Appended }

const vC04D = defaultSegmentSize

// marshalled point sizes; a block of k points is 8 + sum(4+size) bytes
var vC04SizeClasses = []int{
	16,
	vC04D / 3,
	vC04D/2 - 12, // two of them: block of exactly D-8 bytes, the most an empty segment holds
	vC04D/2 - 8,  // two of them: block of exactly D bytes: passes `len(b) > defaultSegmentSize`, fits no segment
	vC04D - 20,   // alone: D-8
	vC04D - 19,   // alone: D-7, no segment holds it
	vC04D + 5,
}

func VerifHarness_C04_SplitBatch() {
	dir := vC04Dir()
	defer os.RemoveAll(dir)
	vC04Appended, vC04LastIDs = nil, nil
	cfg := NewConfig()
	p := NewNodeProcessor(cfg, 3, 7, dir, nil, nil)
	q, err := newQueue(dir, 1<<40, 32)
	vAssume(err == nil)
	vAssume(q.Open() == nil)
	p.queue = q
	p.done = make(chan struct{})

	maxN := 3
	if vThorough() {
		maxN = 4
	}
	n := vLen("points", 1, maxN)
	sizes := make([]int, n)
	pts := make([]models.Point, n)
	for i := 0; i < n; i++ {
		sizes[i] = vC04SizeClasses[vChoice("sizeClass", len(vC04SizeClasses))]
		pts[i] = &vC04BigPoint{id: byte(i + 1), size: sizes[i]}
	}
	werr := p.WriteShard(pts)
	blocks := vC04Blocks(q)

	// the blocks are consecutive ranges of the batch in order: ids read 1,2,...,m
	m := 0
	for _, blk := range blocks {
		vAssert(len(blk.ids) > 0, "C04.split-no-empty-block")
		want := 8
		for _, id := range blk.ids {
			vAssert(int(id) == m+1, "C04.split-keeps-order-nothing-lost-or-duplicated")
			if int(id) >= 1 && int(id) <= n {
				want += 4 + sizes[id-1]
			}
			m++
		}
		vAssert(blk.n == want, "C04.split-block-is-exactly-its-points")
		vAssert(blk.n <= vC04D, "C04.split-block-within-segment-limit")
	}
	if werr == nil {
		vAssert(m == n, "C04.split-accepted-batch-is-queued-completely")
	} else {
		vAssert(werr == ErrSegmentFull, "C04.split-refuses-only-with-segment-full")
		// documented reason only: the next point alone is more than an empty segment holds
		vAssert(m < n && footerSize+8+4+sizes[vMinInt(m, n-1)] > vC04D, "C04.split-refuses-only-a-point-no-segment-can-hold")
	}
	vObserve("blocks", len(blocks))
	vObserve("queued", m)
	vObserve("err", werr != nil)
	q.Close()
	vReach("C04.split.end")
}

func vMinInt(a, b int) int {
	if a < b {
		return a
	}
	return b
}

// ---- SendLoop ----

type vC04Meta struct{ outcome int }

func (m *vC04Meta) DataNode(id uint64) (*meta.NodeInfo, error) {
	switch m.outcome {
	case 0:
		return &meta.NodeInfo{ID: id}, nil
	case 1:
		return nil, meta.ErrNodeNotFound
	}
	return nil, errors.New("meta unavailable")
}

type vC04Writer struct {
	outcome int
	calls   [][]byte // ids offered per call
	shardOK bool
}

func (w *vC04Writer) WriteShardBinary(shardID, ownerID uint64, points [][]byte) error {
	var ids []byte
	for _, pb := range points {
		ids = append(ids, pb[0])
	}
	w.calls = append(w.calls, ids)
	w.shardOK = shardID == 7 && ownerID == 3
	switch w.outcome {
	case 0:
		return nil
	case 1:
		return errors.New("connection refused")
	case 2:
		return errors.New("partial write: points beyond retention policy dropped=1")
	}
	return errors.New("field type conflict: input field \"v\" is type float, already exists as type integer")
}

func VerifHarness_C04_SendLoop() {
	dir := vC04Dir()
	defer os.RemoveAll(dir)
	cfg := NewConfig()
	w := &vC04Writer{}
	mc := &vC04Meta{}
	p := NewNodeProcessor(cfg, 3, 7, dir, w, mc)
	segSize := int64(1 << 20)
	if vBool("smallSegments") {
		segSize = 60 // one block per segment: the loop crosses segment boundaries
	}
	q := vC04Open(dir, 1<<20, segSize)
	p.queue = q
	p.done = make(chan struct{})

	// 1..3 accepted handoff batches of 1..2 points each
	maxB := 2
	if vThorough() {
		maxB = 3
	}
	nb := vLen("batches", 1, maxB)
	var accepted [][]byte
	id := byte(0)
	for i := 0; i < nb; i++ {
		k := 1
		if i == 0 {
			k = vLen("pointsInFirstBatch", 1, 2)
		}
		var pts []models.Point
		var ids []byte
		for j := 0; j < k; j++ {
			id++
			pts = append(pts, &vC04BigPoint{id: id, size: 9})
			ids = append(ids, id)
		}
		vAssume(p.WriteShard(pts) == nil)
		accepted = append(accepted, ids)
	}

	rounds := vLen("rounds", 1, nb+1)
	consumed := 0
	for r := 0; r < rounds; r++ {
		mc.outcome = vChoice("nodeState", 3)
		w.outcome = vChoice("targetAnswer", 4)
		callsBefore := len(w.calls)
		sent, err := p.SendWrite()
		if mc.outcome != 0 {
			vAssert(len(w.calls) == callsBefore && sent == 0 && err != nil, "C04.send-nothing-to-an-inactive-or-unknown-node")
			continue
		}
		if consumed == nb {
			// drained: nothing to offer
			vAssert(len(w.calls) == callsBefore && err == io.EOF, "C04.send-on-drained-queue-is-eof")
			continue
		}
		if len(w.calls) == callsBefore {
			// SendWrite met the end of an exhausted head segment: it trims it and reports EOF; the
			// next round offers the block
			vAssert(err == io.EOF && sent == 0, "C04.send-skips-only-exhausted-segments")
			continue
		}
		vAssert(len(w.calls) == callsBefore+1 && w.shardOK, "C04.send-offers-one-block-to-its-target")
		got := w.calls[len(w.calls)-1]
		want := accepted[consumed]
		same := len(got) == len(want)
		for i := 0; same && i < len(got); i++ {
			same = got[i] == want[i]
		}
		vAssert(same, "C04.send-offers-blocks-in-acceptance-order-none-skipped")
		if w.outcome == 1 {
			vAssert(err != nil && sent == 0, "C04.send-retryable-failure-is-reported")
		} else {
			vAssert(err == nil && sent > 0, "C04.send-delivered-or-permanently-rejected-block-is-consumed")
			consumed++
		}
	}
	// what is still queued is exactly the accepted blocks that were not consumed, in order
	left := vC04Blocks(q)
	vAssert(len(left) == nb-consumed, "C04.send-pending-is-accepted-minus-consumed")
	for i := 0; i < len(left) && consumed+i < nb; i++ {
		want := accepted[consumed+i]
		same := len(left[i].ids) == len(want)
		for j := 0; same && j < len(want); j++ {
			same = left[i].ids[j] == want[j]
		}
		vAssert(same, "C04.send-pending-is-accepted-minus-consumed")
	}
	vObserve("consumed", consumed)
	vObserve("calls", len(w.calls))
	q.Close()
	vReach("C04.sendloop.end")
}

// BlockFillsSegment: the append side accepts a block iff an empty segment can hold it
// (footerSize + len(b) <= maxSegmentSize); every accepted block - in particular one that fills
// its segment to the last byte - is read back and delivered in order, also after a restart.
func VerifHarness_C04_BlockFillsSegment() {
	dir := vC04Dir()
	defer os.RemoveAll(dir)
	seg := 19
	if vBool("largerSegment") {
		seg = 30
	}
	q := vC04Open(dir, 1<<20, int64(seg))
	var pending [][]byte
	if vBool("blockBefore") { // the large block then needs a roll-over
		b := []byte{0xA0, vByte("first")}
		vAssume(q.Append(b) == nil)
		pending = append(pending, b)
	}
	L := seg - footerSize - 1 + vLen("delta", 0, 2) // one below, exactly, one above what a segment holds
	b := make([]byte, L)
	for i := range b {
		b[i] = byte(i + 1)
	}
	b[0] = vByte("payload")
	err := q.Append(b)
	vAssert((err == nil) == (L <= seg-footerSize), "C04.append-accepts-exactly-what-an-empty-segment-holds")
	if err == nil {
		pending = append(pending, b)
	}
	if vBool("blockAfter") {
		a := []byte{0xA1}
		vAssume(q.Append(a) == nil)
		pending = append(pending, a)
	}
	if vBool("restart") {
		vAssume(q.Close() == nil)
		q = vC04Open(dir, 1<<20, int64(seg))
	}
	vAssert(q.Empty() == (len(pending) == 0), "C04.empty-iff-nothing-pending")
	for k := 0; k < len(pending); k++ {
		got, gerr := vC04Next(q)
		same := gerr == nil && len(got) == len(pending[k])
		for i := 0; same && i < len(got); i++ {
			same = got[i] == pending[k][i]
		}
		vAssert(same, "C04.accepted-block-is-read-back-in-order")
		if gerr != nil {
			break
		}
		vAssert(q.Advance() == nil, "C04.advance-ok")
	}
	vObserve("pending", len(pending))
	q.Close()
	vReach("C04.fills.end")
}
