//go:build verif_harness

package meta

// C16: statement/write authorisation and the credential cache.

import (
	"golang.org/x/crypto/bcrypt"

	"github.com/influxdata/influxql"
)

func init() {
	vRegister("VerifHarness_C16_AuthorizeQuery", VerifHarness_C16_AuthorizeQuery)
	vRegister("VerifHarness_C16_AuthorizeWrite", VerifHarness_C16_AuthorizeWrite)
	vRegister("VerifHarness_C16_CredentialCache", VerifHarness_C16_CredentialCache)
	vRegister("VerifHarness_C16_CredentialCacheCoalesced", VerifHarness_C16_CredentialCacheCoalesced)
}

var vC16DBs = []string{"", "a", "b"}

type vC16Req struct {
	admin bool
	db    string
	priv  influxql.Privilege
}

// vC16Statement returns a statement of the query language together with what it needs according
// to the documentation (written independently of RequiredPrivileges()).
func vC16Statement() (influxql.Statement, []vC16Req, bool) {
	db := vC16DBs[vChoice("stmtDatabase", len(vC16DBs))]
	switch vChoice("statement", 9) {
	case 0:
		return &influxql.ShowMeasurementsStatement{Database: db}, []vC16Req{{false, db, influxql.ReadPrivilege}}, false
	case 1:
		return &influxql.SelectStatement{Sources: influxql.Sources{&influxql.Measurement{Database: db, Name: "m"}}}, []vC16Req{{false, db, influxql.ReadPrivilege}}, false
	case 2:
		into := vC16DBs[vChoice("intoDatabase", len(vC16DBs))]
		return &influxql.SelectStatement{Sources: influxql.Sources{&influxql.Measurement{Database: db, Name: "m"}},
			Target: &influxql.Target{Measurement: &influxql.Measurement{Database: into, Name: "t"}}}, []vC16Req{{false, db, influxql.ReadPrivilege}, {false, into, influxql.WritePrivilege}}, false
	case 3:
		return &influxql.DeleteStatement{Source: &influxql.Measurement{Name: "m"}}, []vC16Req{{false, "", influxql.WritePrivilege}}, false
	case 4:
		adm := vBool("createsAdmin")
		return &influxql.CreateUserStatement{Name: "n", Password: "p", Admin: adm}, []vC16Req{{true, "", influxql.AllPrivileges}}, adm
	case 5:
		return &influxql.DropDatabaseStatement{Name: "a"}, []vC16Req{{true, "", influxql.AllPrivileges}}, false
	case 6:
		return &influxql.ShowDatabasesStatement{}, nil, false
	case 7:
		return &influxql.ShowSeriesStatement{Database: db}, []vC16Req{{false, db, influxql.ReadPrivilege}}, false
	}
	return &influxql.GrantStatement{Privilege: influxql.AllPrivileges, On: "a", User: "u"}, []vC16Req{{true, "", influxql.AllPrivileges}}, false
}

func vC16Privilege(tag string) (influxql.Privilege, bool) {
	switch vChoice(tag, 5) {
	case 0:
		return influxql.NoPrivileges, false // no grant recorded
	case 4:
		return influxql.NoPrivileges, true // an entry left behind by REVOKE (value NoPrivileges)
	case 1:
		return influxql.ReadPrivilege, true
	case 2:
		return influxql.WritePrivilege, true
	}
	return influxql.AllPrivileges, true
}

func vC16Covers(grant influxql.Privilege, granted bool, need influxql.Privilege) bool {
	if need == influxql.NoPrivileges {
		return true
	}
	return granted && (grant == need || grant == influxql.AllPrivileges)
}

func VerifHarness_C16_AuthorizeQuery() {
	data := &Data{}
	ui := &UserInfo{Name: "u", Hash: "h", Admin: vBool("userIsAdmin"), Privileges: map[string]influxql.Privilege{}}
	pa, ga := vC16Privilege("grantOnA")
	pb, gb := vC16Privilege("grantOnB")
	if ga {
		ui.Privileges["a"] = pa
	}
	if gb {
		ui.Privileges["b"] = pb
	}
	usersExist := vBool("usersExist")
	if usersExist {
		data.Users = []UserInfo{*ui}
	}
	c := &Client{cacheData: data, authCache: map[string]authUser{}}
	a := NewQueryAuthorizer(c)
	var user User
	if vBool("userPresented") {
		user = ui
	}
	defaultDB := []string{"a", "b"}[vChoice("defaultDatabase", 2)]
	nStmts := vLen("statements", 1, 2)
	q := &influxql.Query{}
	var reqs [][]vC16Req
	firstCreatesAdmin := false
	for i := 0; i < nStmts; i++ {
		st, r, adm := vC16Statement()
		q.Statements = append(q.Statements, st)
		reqs = append(reqs, r)
		if i == 0 {
			firstCreatesAdmin = adm
		}
	}
	_, err := a.AuthorizeQuery(user, q, defaultDB)
	allowed := err == nil

	// reference decision straight from the statement
	var want bool
	switch {
	case !usersExist:
		want = firstCreatesAdmin
	case user == nil:
		want = false
	case ui.Admin:
		want = true
	default:
		want = true
		for _, rs := range reqs {
			for _, r := range rs {
				if r.admin {
					want = false
					continue
				}
				db := r.db
				if db == "" {
					db = defaultDB
				}
				switch db {
				case "a":
					want = want && vC16Covers(pa, ga, r.priv)
				case "b":
					want = want && vC16Covers(pb, gb, r.priv)
				default:
					want = false
				}
			}
		}
	}
	vAssert(!allowed || want, "C16.query-runs-only-with-sufficient-grants")
	vAssert(allowed || !want, "C16.sufficient-grants-are-accepted")
	vObserve("allowed", allowed)
	if allowed {
		vReach("C16.query.allowed")
	} else {
		vReach("C16.query.denied")
	}
}

func VerifHarness_C16_AuthorizeWrite() {
	data := &Data{}
	ui := UserInfo{Name: "u", Hash: "h", Admin: vBool("userIsAdmin"), Privileges: map[string]influxql.Privilege{}}
	pa, ga := vC16Privilege("grantOnA")
	if ga {
		ui.Privileges["a"] = pa
	}
	if vBool("userExists") {
		data.Users = []UserInfo{ui}
	}
	c := &Client{cacheData: data, authCache: map[string]authUser{}}
	w := NewWriteAuthorizer(c)
	name := []string{"u", "x"}[vChoice("username", 2)]
	db := []string{"a", "b"}[vChoice("database", 2)]
	err := w.AuthorizeWrite(name, db)
	want := len(data.Users) == 1 && name == "u" && (ui.Admin || (db == "a" && vC16Covers(pa, ga, influxql.WritePrivilege)))
	vAssert((err == nil) == want, "C16.write-runs-only-with-write-grant")
	vObserve("allowed", err == nil)
	vReach("C16.write.end")
}

// --- credential cache

var vC16Passwords = []string{"pw1", "pw2", "pw3"}

// vC16Hash: bcrypt hash of a password (native); replaced in the engine by vC16HashModel.
func vC16Hash(pw string) string {
	h, err := bcrypt.GenerateFromPassword([]byte(pw), bcrypt.MinCost)
	if err != nil {
		panic(err)
	}
	return string(h)
}

func vC16HashModel(pw string) string { return "bcrypt:" + pw }

// engine-side models of the hash primitives: collision free, bcrypt accepts exactly the password
// the hash was made from.
func vC16BcryptCompare(hash, pw []byte) error {
	if string(hash) == "bcrypt:"+string(pw) {
		return nil
	}
	return bcrypt.ErrMismatchedHashAndPassword
}

func vC16HashWithSalt(c *Client, salt []byte, password string) []byte {
	return []byte("salted:" + string(salt) + ":" + password)
}

func vC16SaltedHash(c *Client, password string) ([]byte, []byte, error) {
	salt := []byte{'s'}
	return salt, vC16HashWithSalt(c, salt, password), nil
}

// Histories of authenticate / password change / user removal / metadata refresh: a password is
// accepted iff it is the user's current password, including through the credential cache.
func VerifHarness_C16_CredentialCache() {
	cur := vChoice("initialPassword", len(vC16Passwords))
	exists := true
	data := &Data{Users: []UserInfo{{Name: "u", Hash: vC16Hash(vC16Passwords[cur])}}}
	c := &Client{cacheData: data, authCache: map[string]authUser{}}
	steps := vLen("steps", 1, 4)
	for s := 0; s < steps; s++ {
		switch vChoice("op", 3) {
		case 0: // authenticate
			try := vChoice("tryPassword", len(vC16Passwords))
			u, err := c.Authenticate("u", vC16Passwords[try])
			ok := err == nil && u != nil
			vAssert(ok == (exists && try == cur), "C16.password-accepted-iff-current")
		case 1: // password change reaches this node
			cur = vChoice("newPassword", len(vC16Passwords))
			if exists {
				nd := c.cacheData.Clone()
				nd.Users[0].Hash = vC16Hash(vC16Passwords[cur])
				c.cacheData = nd
				c.updateAuthCache()
			}
		case 2: // user removal reaches this node
			if exists {
				nd := c.cacheData.Clone()
				nd.Users = nil
				c.cacheData = nd
				c.updateAuthCache()
				exists = false
			}
		}
		// cache invariant: every entry belongs to an existing user and to its current hash
		for name, au := range c.authCache {
			ui := c.cacheData.user(name)
			vAssert(ui != nil && ui.Hash == au.bhash, "C16.cache-entry-matches-current-hash")
		}
	}
	vObserve("exists", exists)
	vReach("C16.cache.end")
}

// Two users and coalesced updates: a data node's long poll returns the latest metadata, so one
// refresh may carry password changes / removals of several cached users at once. Every one of
// them must stop working through the cache.
func VerifHarness_C16_CredentialCacheCoalesced() {
	names := []string{"u", "w"}
	cur := []int{0, 0}
	exists := []bool{true, true}
	data := &Data{Users: []UserInfo{{Name: "u", Hash: vC16Hash(vC16Passwords[0])}, {Name: "w", Hash: vC16Hash(vC16Passwords[0])}}}
	c := &Client{cacheData: data, authCache: map[string]authUser{}}
	maxSteps, nPw := 3, 2
	if vThorough() {
		nPw = 3
	}
	steps := vLen("steps", 1, maxSteps)
	for s := 0; s < steps; s++ {
		if vBool("refresh") {
			// one metadata refresh carrying changes for a subset of the users
			mask := vLen("changedUsers", 1, 3)
			nd := c.cacheData.Clone()
			for i := range names {
				if mask&(1<<uint(i)) == 0 || !exists[i] {
					continue
				}
				if vBool("removed") {
					exists[i] = false
					var keep []UserInfo
					for _, ui := range nd.Users {
						if ui.Name != names[i] {
							keep = append(keep, ui)
						}
					}
					nd.Users = keep
				} else {
					cur[i] = vChoice("newPassword", nPw)
					for j := range nd.Users {
						if nd.Users[j].Name == names[i] {
							nd.Users[j].Hash = vC16Hash(vC16Passwords[cur[i]])
						}
					}
				}
			}
			c.cacheData = nd
			c.updateAuthCache()
		} else {
			i := vChoice("user", 2)
			try := vChoice("tryPassword", nPw)
			u, err := c.Authenticate(names[i], vC16Passwords[try])
			ok := err == nil && u != nil
			vAssert(ok == (exists[i] && try == cur[i]), "C16.password-accepted-iff-current")
		}
		for name, au := range c.authCache {
			ui := c.cacheData.user(name)
			vAssert(ui != nil && ui.Hash == au.bhash, "C16.cache-entry-matches-current-hash")
		}
	}
	vObserve("existsU", exists[0])
	vObserve("existsW", exists[1])
	vReach("C16.cache2.end")
}
