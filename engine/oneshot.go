package main

// One-shot portfolio: a hard query (the incremental back end answered unknown or timed out) is
// rendered as a standalone script and raced on fresh solver processes, which — unlike the
// incremental mode — run their full preprocessing/bit-blasting pipelines.

import (
	"bytes"
	"context"
	"fmt"
	"os/exec"
	"strings"
	"time"
)

type oneShotAnswer struct {
	kind  string
	res   Result
	model map[string]uint64
}

func oneShotCmd(ctx context.Context, kind string, timeoutS int) *exec.Cmd {
	switch kind {
	case "z3":
		return exec.CommandContext(ctx, "z3", "-in", "-smt2", fmt.Sprintf("-T:%d", timeoutS))
	case "z3-new":
		return exec.CommandContext(ctx, "z3-new", "-in", "-smt2", fmt.Sprintf("-T:%d", timeoutS))
	case "cvc5":
		return exec.CommandContext(ctx, "cvc5", "--lang=smt2", "--produce-models", fmt.Sprintf("--tlimit=%d", timeoutS*1000))
	case "cvc5-int":
		return exec.CommandContext(ctx, "cvc5", "--lang=smt2", "--produce-models", "--solve-bv-as-int=sum", fmt.Sprintf("--tlimit=%d", timeoutS*1000))
	case "cvc5-iand":
		return exec.CommandContext(ctx, "cvc5", "--lang=smt2", "--produce-models", "--solve-bv-as-int=iand", fmt.Sprintf("--tlimit=%d", timeoutS*1000))
	}
	return nil
}

// OneShotRace returns the first definite answer among kinds (Unknown if none within timeoutS).
func OneShotRace(kinds []string, pc, extra, vars []*Term, timeoutS int) (Result, map[string]uint64, string) {
	var sb strings.Builder
	sb.WriteString("(set-option :produce-models true)\n(set-logic ALL)\n")
	body := StandaloneSMT(pc, extra)
	// declare vars that do not occur in the assertions (so that get-value works)
	sb.WriteString(body)
	script := sb.String()
	declared := map[string]bool{}
	for _, line := range strings.Split(body, "\n") {
		if strings.HasPrefix(line, "(declare-fun ") {
			f := strings.Fields(line)
			declared[f[1]] = true
		}
	}
	var occ []*Term
	for _, v := range vars {
		if declared[smtName(v)] {
			occ = append(occ, v)
		}
	}
	if len(occ) > 0 {
		var gv strings.Builder
		gv.WriteString("(get-value (")
		for _, v := range occ {
			gv.WriteString(smtName(v) + " ")
		}
		gv.WriteString("))\n")
		script += gv.String()
	}
	ctx, cancel := context.WithTimeout(context.Background(), time.Duration(timeoutS+2)*time.Second)
	defer cancel()
	ch := make(chan oneShotAnswer, len(kinds))
	n := 0
	for _, k := range kinds {
		cmd := oneShotCmd(ctx, k, timeoutS)
		if cmd == nil {
			continue
		}
		n++
		go func(kind string, cmd *exec.Cmd) {
			cmd.Stdin = strings.NewReader(script)
			var out bytes.Buffer
			cmd.Stdout = &out
			cmd.Stderr = &out
			cmd.Run()
			txt := out.String()
			ans := oneShotAnswer{kind: kind, res: Unknown}
			lines := strings.Split(txt, "\n")
			verdict := ""
			errBefore := false
			for _, l := range lines {
				l = strings.TrimSpace(l)
				if l == "sat" || l == "unsat" || l == "unknown" || l == "timeout" {
					verdict = l
					break
				}
				if strings.HasPrefix(l, "(error") {
					errBefore = true
				}
			}
			if !errBefore {
				switch verdict {
				case "unsat":
					ans.res = Unsat
				case "sat":
					m := parseValues(txt, occ)
					if m != nil {
						ans.res = Sat
						ans.model = m
					}
				}
			}
			ch <- ans
		}(k, cmd)
	}
	for i := 0; i < n; i++ {
		a := <-ch
		if a.res != Unknown {
			cancel()
			return a.res, a.model, a.kind
		}
	}
	return Unknown, nil, ""
}

// parseValues extracts (name value) pairs for vars from solver output text.
func parseValues(txt string, vars []*Term) map[string]uint64 {
	model := make(map[string]uint64, len(vars))
	for _, v := range vars {
		key := "(" + smtName(v) + " "
		p := strings.Index(txt, key)
		if p < 0 {
			return nil
		}
		rest := txt[p+len(key):]
		q := strings.IndexByte(rest, ')')
		if q < 0 {
			return nil
		}
		u, ok := parseSMTValue(strings.TrimSpace(rest[:q]))
		if !ok {
			return nil
		}
		model[v.name] = u
	}
	return model
}

func parseSMTValue(val string) (uint64, bool) {
	var u uint64
	switch {
	case val == "true":
		return 1, true
	case val == "false":
		return 0, true
	case strings.HasPrefix(val, "#x"):
		_, err := fmt.Sscanf(val[2:], "%x", &u)
		return u, err == nil
	case strings.HasPrefix(val, "#b"):
		_, err := fmt.Sscanf(val[2:], "%b", &u)
		return u, err == nil
	case strings.HasPrefix(val, "(_ bv"):
		f := strings.Fields(val[5:])
		_, err := fmt.Sscanf(f[0], "%d", &u)
		return u, err == nil
	}
	return 0, false
}
