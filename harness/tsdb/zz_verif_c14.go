//go:build verif_harness

package tsdb

// C14-K2: the series-id set operations predicates are evaluated with (merge / intersect / union /
// difference of sorted id streams; slice-backed inputs take the non-bitmap path).

func init() {
	vRegister("VerifHarness_C14_SeriesIDSetOps", VerifHarness_C14_SeriesIDSetOps)
}

func vC14IDs(tag string, max int) []uint64 {
	n := vLen(tag, 0, max)
	ids := make([]uint64, n)
	for i := range ids {
		ids[i] = vUint64(tag + ".id")
		// zero is the end-of-stream marker; series ids are 32-bit quantities throughout the index
		// (SeriesIDSet stores uint32(id)), so the id space is [1, 2^32)
		vAssume(ids[i] != 0 && ids[i] < 1<<32)
		if i > 0 {
			vAssume(ids[i-1] < ids[i]) // sorted, unique: what every index iterator produces
		}
	}
	return ids
}

type vC14Iter struct{ ids []uint64 }

func (it *vC14Iter) Next() (SeriesIDElem, error) {
	if len(it.ids) == 0 {
		return SeriesIDElem{}, nil
	}
	id := it.ids[0]
	it.ids = it.ids[1:]
	return SeriesIDElem{SeriesID: id}, nil
}
func (it *vC14Iter) Close() error { return nil }

func vC14Has(ids []uint64, x uint64) bool {
	found := false
	for _, id := range ids {
		found = vOr(found, id == x)
	}
	return found
}

func vC14Drain(itr SeriesIDIterator, limit int) ([]uint64, bool) {
	var out []uint64
	if itr == nil {
		return nil, true
	}
	for i := 0; i <= limit; i++ {
		e, err := itr.Next()
		if err != nil {
			return out, false
		}
		if e.SeriesID == 0 {
			return out, true
		}
		out = append(out, e.SeriesID)
	}
	return out, false
}

func VerifHarness_C14_SeriesIDSetOps() {
	max := 3
	if vThorough() {
		max = 4
	}
	a := vC14IDs("a", max)
	b := vC14IDs("b", max)
	// plain iterators (no SeriesIDSet method): the streaming merge/intersect/union/difference
	// iterators run, not the roaring-bitmap shortcut
	ia := &vC14Iter{ids: append([]uint64(nil), a...)}
	ib := &vC14Iter{ids: append([]uint64(nil), b...)}
	op := vChoice("op", 4)
	var itr SeriesIDIterator
	switch op {
	case 0:
		itr = IntersectSeriesIDIterators(ia, ib)
	case 1:
		itr = UnionSeriesIDIterators(ia, ib)
	case 2:
		itr = DifferenceSeriesIDIterators(ia, ib)
	default:
		itr = MergeSeriesIDIterators(ia, ib)
	}
	out, ok := vC14Drain(itr, len(a)+len(b))
	vAssert(ok, "C14.set-op-terminates-without-error")
	for i := 1; i < len(out); i++ {
		vAssert(out[i-1] < out[i], "C14.set-op-output-sorted-unique")
	}
	member := func(x uint64) bool {
		ina, inb := vC14Has(a, x), vC14Has(b, x)
		switch op {
		case 0:
			return vAnd(ina, inb)
		case 2:
			return vAnd(ina, !inb)
		}
		return vOr(ina, inb)
	}
	for _, x := range a {
		vAssert(vC14Has(out, x) == member(x), "C14.set-op-has-set-semantics")
	}
	for _, x := range b {
		vAssert(vC14Has(out, x) == member(x), "C14.set-op-has-set-semantics")
	}
	for _, x := range out {
		vAssert(vOr(vC14Has(a, x), vC14Has(b, x)), "C14.set-op-invents-nothing")
	}
	vObserve("n", len(out))
	vReach("C14.setops.end")
}
