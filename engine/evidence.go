package main

import (
	"encoding/json"
	"fmt"
	"os"
	"path/filepath"
	"sort"
)

func writeEvidence(spec *Spec, tier string, seed int64, outs []hOut, tracesValidated int, samples []interface{}, violations int,
	knownLines []string, broken []string, wall, loadS float64, workers int, solverKind string) {
	states, transitions := 0, int64(0)
	obligations, discharged := 0, 0
	funcs := map[string]bool{}
	var q, sat, unsat, unk, modelHits int
	var st float64
	exhaustive := len(broken) == 0
	perH := []map[string]interface{}{}
	for _, ho := range outs {
		r := ho.out.res
		states += r.Paths
		transitions += r.Steps
		obligations += r.Obligations
		discharged += r.Discharged
		for f := range r.Funcs {
			funcs[shortFn(f)] = true
		}
		var hq int
		var hst float64
		for _, s := range ho.out.stats {
			q += s.Queries
			sat += s.Sat
			unsat += s.Unsat
			unk += s.Unknown
			st += s.TimeS
			modelHits += s.ModelHit
			hq += s.Queries
			hst += s.TimeS
		}
		reached := []string{}
		for k := range r.Reached {
			reached = append(reached, k)
		}
		sort.Strings(reached)
		perH = append(perH, map[string]interface{}{
			"harness": r.Name, "kernel": ho.spec.Kernel, "paths": r.Paths, "paths_pruned_by_assume": r.Pruned, "ssa_steps": r.Steps,
			"assertions_checked": r.Obligations, "assertions_discharged": r.Discharged, "violating_models": len(r.Violations),
			"max_decision_depth": r.MaxDepth, "reach_labels": reached, "queries": hq, "solver_time_s": round2(hst), "wall_s": round2(ho.out.wall),
			"incomplete": r.Incomplete, "native_replay": boolOr(ho.spec.Native, true), "note": ho.spec.Note,
		})
	}
	fl := sortedKeys(funcs)
	bounds := spec.Bounds
	if tier == "thorough" && spec.BoundsThorough != nil {
		bounds = spec.BoundsThorough
	}
	if len(samples) == 0 {
		samples = append(samples, "no witness recorded")
	}
	if states == 0 {
		states = 1
	}
	if transitions == 0 {
		transitions = 1
	}
	level := spec.Level
	if level == "" {
		level = "model_checking"
	}
	ev := map[string]interface{}{
		"property_id": spec.Property,
		"tier":        tier,
		"seed":        seed,
		"level":       level,
		"wall_s":      round2(wall),
		"violations":  violations,
		"coverage": map[string]interface{}{
			"states":                        states,
			"transitions":                   transitions,
			"traces_validated_against_impl": tracesValidated,
			"samples":                       samples,
			"exhaustive":                    exhaustive,
			"explanation":                   "bounded symbolic execution of the repository's SSA (go/ssa of /repo's working tree, regenerated this run); states = feasible paths explored to completion, transitions = SSA instructions executed symbolically; every branch/assertion decided by an SMT query or a cached model; exhaustive=true means every path terminated inside all limits and every query returned sat/unsat",
			"functions_encoded":             fl,
			"functions_encoded_count":       len(fl),
			"bounds":                        bounds,
			"outside_claim":                 spec.Outside,
			"queries":                       map[string]interface{}{"total": q, "sat": sat, "unsat": unsat, "unknown": unk, "answered_by_cached_model": modelHits, "backend": solverKind},
			"solver_time_s":                 round2(st),
			"load_typecheck_ssa_s":          round2(loadS),
			"workers":                       workers,
			"assertions_checked":            obligations,
			"assertions_discharged":         discharged,
			"harnesses":                     perH,
			"known_findings_reported":       knownLines,
			"broken":                        broken,
			"limits":                        spec.Limits,
		},
		"assumptions": spec.Assumptions,
	}
	js, _ := json.MarshalIndent(ev, "", " ")
	dir := filepath.Join(verifDir, "evidence")
	os.MkdirAll(dir, 0o755)
	if err := os.WriteFile(filepath.Join(dir, spec.Property+".json"), js, 0o644); err != nil {
		fmt.Println("cannot write evidence:", err)
	}
}

func round2(f float64) float64 { return float64(int64(f*100+0.5)) / 100 }
