//go:build verif_harness

package tsi1

// C14-K1: the in-memory index of a TSI log file (LogFile.execEntry and its four entry kinds,
// which run both when an entry is appended and when the log is replayed at start) over histories
// of series creation, series drops, measurement drops (the entry sequence
// Partition.DropMeasurement writes: tombstones for every visible tag key and value, for every
// series, then for the measurement) and re-creation. After every history each series that was
// written and not since dropped is reported with its measurement, tag key and tag value visible,
// and a dropped series is no longer referenced.

import (
	"github.com/influxdata/influxdb/models"
	"github.com/influxdata/influxdb/tsdb"
)

func init() {
	vRegister("VerifHarness_C14_LogFileHistory", VerifHarness_C14_LogFileHistory)
}

type vC14Series struct {
	id   uint64
	tags models.Tags
	live bool
}

func vC14SeriesEntry(s *vC14Series, tombstone bool) *LogEntry {
	e := &LogEntry{SeriesID: s.id, name: []byte("m"), tags: s.tags, cached: true}
	if tombstone {
		e.Flag = LogEntrySeriesTombstoneFlag
	}
	return e
}

func VerifHarness_C14_LogFileHistory() {
	f := NewLogFile(nil, "")
	// series A: m,k=<a>  B: m,k=<b>  C: m,j=<a>   (tag values are symbolic bytes, a != b)
	a, b := vByte("valueA"), vByte("valueB")
	vAssume(a != b)
	univ := []*vC14Series{
		{id: 1, tags: models.Tags{{Key: []byte("k"), Value: []byte{a}}}},
		{id: 2, tags: models.Tags{{Key: []byte("k"), Value: []byte{b}}}},
		{id: 3, tags: models.Tags{{Key: []byte("j"), Value: []byte{a}}}},
	}
	maxOps := 4
	if vThorough() {
		maxOps = 5
	}
	nops := vLen("ops", 1, maxOps)
	for i := 0; i < nops; i++ {
		op := vChoice("op", 7)
		switch {
		case op < 3: // write series
			s := univ[op]
			if !s.live { // the partition's series set filters series that already exist
				f.execEntry(vC14SeriesEntry(s, false))
				s.live = true
			}
		case op < 6: // drop series
			s := univ[op-3]
			if s.live {
				f.execEntry(vC14SeriesEntry(s, true))
				s.live = false
			}
		default: // drop measurement: the entries Partition.DropMeasurement writes
			if kitr := f.TagKeyIterator([]byte("m")); kitr != nil {
				for k := kitr.Next(); k != nil; k = kitr.Next() {
					if !k.Deleted() {
						f.execEntry(&LogEntry{Flag: LogEntryTagKeyTombstoneFlag, Name: []byte("m"), Key: k.Key()})
					}
					if vitr := k.TagValueIterator(); vitr != nil {
						for v := vitr.Next(); v != nil; v = vitr.Next() {
							if !v.Deleted() {
								f.execEntry(&LogEntry{Flag: LogEntryTagValueTombstoneFlag, Name: []byte("m"), Key: k.Key(), Value: v.Value()})
							}
						}
					}
				}
			}
			for _, s := range univ {
				if s.live {
					f.execEntry(vC14SeriesEntry(s, true))
					s.live = false
				}
			}
			f.execEntry(&LogEntry{Flag: LogEntryMeasurementTombstoneFlag, Name: []byte("m")})
		}
	}

	anyLive := false
	for _, s := range univ {
		key, val := s.tags[0].Key, s.tags[0].Value
		var mmHas, tvHas bool
		if mm := f.mms["m"]; mm != nil {
			_, mmHas = mm.series[s.id]
		}
		tk := f.TagKey([]byte("m"), key)
		tv := f.TagValue([]byte("m"), key, val)
		if tv != nil {
			_, tvHas = tv.(*logTagValue).series[s.id]
		}
		if s.live {
			anyLive = true
			mm := f.Measurement([]byte("m"))
			vAssert(mm != nil && !mm.Deleted(), "C14.written-series-has-its-measurement-listed")
			vAssert(mmHas, "C14.written-series-is-listed")
			vAssert(tk != nil && !tk.Deleted(), "C14.written-series-has-its-tag-key-listed")
			vAssert(tv != nil && !tv.Deleted(), "C14.written-series-has-its-tag-value-listed")
			vAssert(tvHas, "C14.written-series-is-found-by-its-tag-value")
		} else {
			vAssert(!mmHas, "C14.dropped-series-does-not-linger")
			vAssert(!tvHas, "C14.dropped-series-does-not-linger-under-its-tag-value")
		}
	}
	vObserve("anyLive", anyLive)
	vObserve("seriesN", f.SeriesN())
	vReach("C14.logfile.end")
}

var _ = tsdb.NewSeriesIDSet
