//go:build verif_harness

package tsm1

// C09 lemma: the "values pending" predicate that tsmBatchKeyIterator.Next (and the older
// tsmKeyIterator.Next) consult before moving to the next key is true exactly when one of the five
// typed merge buffers still holds points - for every value type and every typ the iterator is
// currently merging. A false negative makes Next leave a key with decoded points still buffered
// (they are lost or written under the next key).

import (
	"github.com/influxdata/influxdb/tsdb"
)

func init() {
	vRegister("VerifHarness_C09_PendingValuesPredicate", VerifHarness_C09_PendingValuesPredicate)
}

func VerifHarness_C09_PendingValuesPredicate() {
	nf, ni, nu, ns, nb := vLen("floats", 0, 2), vLen("integers", 0, 2), vLen("unsigneds", 0, 2), vLen("strings", 0, 2), vLen("booleans", 0, 2)
	typ := byte(vChoice("blockType", 5)) // BlockFloat64 .. BlockUnsigned: the type of the key being merged
	k := &tsmBatchKeyIterator{
		typ:                  typ,
		mergedFloatValues:    &tsdb.FloatArray{Timestamps: make([]int64, nf), Values: make([]float64, nf)},
		mergedIntegerValues:  &tsdb.IntegerArray{Timestamps: make([]int64, ni), Values: make([]int64, ni)},
		mergedUnsignedValues: &tsdb.UnsignedArray{Timestamps: make([]int64, nu), Values: make([]uint64, nu)},
		mergedStringValues:   &tsdb.StringArray{Timestamps: make([]int64, ns), Values: make([]string, ns)},
		mergedBooleanValues:  &tsdb.BooleanArray{Timestamps: make([]int64, nb), Values: make([]bool, nb)},
	}
	pending := nf+ni+nu+ns+nb > 0
	vAssert(k.hasMergedValues() == pending, "C09.pending-values-predicate-sees-every-value-type")

	k2 := &tsmKeyIterator{
		typ:                  typ,
		mergedFloatValues:    make(FloatValues, nf),
		mergedIntegerValues:  make(IntegerValues, ni),
		mergedUnsignedValues: make(UnsignedValues, nu),
		mergedStringValues:   make(StringValues, ns),
		mergedBooleanValues:  make(BooleanValues, nb),
	}
	vAssert(k2.hasMergedValues() == pending, "C09.pending-values-predicate-sees-every-value-type")
	vObserve("pending", pending)
	vReach("C09.pending.end")
}
