#!/bin/bash
# usage: mutprobe.sh <prop> <file-in-repo> <sed-expr> [check args...]   — applies a mutant to /repo, runs the check, reverts.
prop=$1; file=$2; expr=$3; shift 3
cd /repo || exit 2
git diff --quiet || { echo "repo dirty"; exit 2; }
sed -i "$expr" "$file"
if git diff --quiet; then echo "MUTANT DID NOT APPLY"; exit 2; fi
(export GOFLAGS=-mod=mod GOPROXY=off; go build ./$(dirname $file)/ 2>&1 | head -5)
cd /verif && ./check $prop "$@" 2>&1 | grep -E "^(VIOLATION|KNOWN|BROKEN|PASS)" | cut -c1-300
echo "exit=$?"
git -C /repo checkout -- .
