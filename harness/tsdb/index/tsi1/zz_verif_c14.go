//go:build verif_harness

package tsi1

// C14-K3: the tombstone-aware merge of series-id sets in a multi-level index compaction
// (IndexFiles.buildSeriesIDSets): for files ordered newest first, a series id ends up in the
// merged series set iff the newest file that mentions it (as created or as tombstoned) has it as
// created, and in the merged tombstone set iff that file has it as tombstoned - a series dropped
// after it was created stays dropped, one re-created after a drop stays.
//
// tsdb.SeriesIDSet (roaring bitmap) is an engine-side finite-set abstraction (see
// harness/tsdb/zz_verif_seriesset.go); the real bitmaps and their binary form run natively.

import (
	"bytes"

	"github.com/influxdata/influxdb/tsdb"
)

func init() {
	vRegister("VerifHarness_C14_CompactionSeriesSets", VerifHarness_C14_CompactionSeriesSets)
}

type vC14FileSpec struct {
	ids         []uint64
	inSeries    []bool
	inTombstone []bool
}

var vC14Specs = map[*IndexFile]*vC14FileSpec{}

// vC14MakeFile: an index file holding only its two series-id sets (what buildSeriesIDSets reads).
func vC14MakeFile(spec *vC14FileSpec) *IndexFile {
	f := &IndexFile{}
	var b1, b2 bytes.Buffer
	if _, err := tsdb.VerifSetFromFlags(spec.ids, spec.inSeries).WriteTo(&b1); err != nil {
		panic(err)
	}
	if _, err := tsdb.VerifSetFromFlags(spec.ids, spec.inTombstone).WriteTo(&b2); err != nil {
		panic(err)
	}
	f.seriesIDSetData, f.tombstoneSeriesIDSetData = b1.Bytes(), b2.Bytes()
	return f
}

func vC14MakeFileModel(spec *vC14FileSpec) *IndexFile {
	f := &IndexFile{}
	vC14Specs[f] = spec
	return f
}

func vC14SeriesIDSet(f *IndexFile) (*tsdb.SeriesIDSet, error) {
	s := vC14Specs[f]
	return tsdb.VerifSetFromFlagsModel(s.ids, s.inSeries), nil
}

func vC14TombstoneSeriesIDSet(f *IndexFile) (*tsdb.SeriesIDSet, error) {
	s := vC14Specs[f]
	return tsdb.VerifSetFromFlagsModel(s.ids, s.inTombstone), nil
}

func VerifHarness_C14_CompactionSeriesSets() {
	// a universe of 1..3 series ids (arbitrary 32-bit ids, not necessarily distinct) and 1..3
	// files, newest first; in each file every id is created, tombstoned or not mentioned
	nIDs := vLen("ids", 1, 3)
	ids := make([]uint64, nIDs)
	for i := range ids {
		ids[i] = vUint64("id")
		vAssume(ids[i] != 0 && ids[i] < 1<<32)
	}
	maxFiles := 3
	if vThorough() {
		maxFiles = 4
	}
	nFiles := vLen("files", 1, maxFiles)
	var files IndexFiles
	var specs []*vC14FileSpec
	for f := 0; f < nFiles; f++ {
		sp := &vC14FileSpec{ids: ids, inSeries: make([]bool, nIDs), inTombstone: make([]bool, nIDs)}
		for i := range ids {
			sp.inSeries[i] = vBool("created")
			sp.inTombstone[i] = vBool("tombstoned")
		}
		// inside one file the two sets are disjoint (the file writer guarantees it)
		for i := range ids {
			for j := range ids {
				vAssume(!vAnd(vAnd(ids[i] == ids[j], sp.inSeries[i]), sp.inTombstone[j]))
			}
		}
		specs = append(specs, sp)
		files = append(files, vC14MakeFile(sp))
	}
	ss, ts, err := files.buildSeriesIDSets()
	vAssert(err == nil, "C14.compaction-sets-no-error")
	if err != nil {
		return
	}
	for _, u := range ids {
		expS, expT, decided := false, false, false
		for _, sp := range specs { // newest first
			s, t := false, false
			for i := range ids {
				s = vOr(s, vAnd(ids[i] == u, sp.inSeries[i]))
				t = vOr(t, vAnd(ids[i] == u, sp.inTombstone[i]))
			}
			expS = vOr(expS, vAnd(!decided, s))
			expT = vOr(expT, vAnd(!decided, t))
			decided = vOr(decided, vOr(s, t))
		}
		vAssert(ss.Contains(u) == expS, "C14.compaction-keeps-series-per-newest-file")
		vAssert(ts.Contains(u) == expT, "C14.compaction-keeps-tombstone-per-newest-file")
		vObserve("inSeries", ss.Contains(u))
	}
	vReach("C14.compaction-sets.end")
}
