package main

// sync.Map as a per-path side table keyed by the address of the sync.Map value (its real
// implementation is lock-free pointer juggling that a sequential engine need not execute).

import (
	"golang.org/x/tools/go/ssa"
)

func (e *Engine) syncMapOf(v Value) *Map {
	p := v.(*Value)
	if e.path.syncMaps == nil {
		e.path.syncMaps = map[*Value]*Map{}
	}
	m := e.path.syncMaps[p]
	if m == nil {
		m = &Map{}
		e.path.syncMaps[p] = m
	}
	return m
}

// inHashModel stands in for assembly hash functions whose value only selects a bucket/partition
// (xxhash in the cache ring): a deterministic function of the concrete bytes (FNV-1a).
func inHashModel(e *Engine, c *frame, f *ssa.Function, a []Value) Value {
	bs := e.bytesOf(a[0])
	h := uint64(14695981039346656037)
	for _, b := range bs {
		if !b.IsConst() {
			panic(e.unsupported("hash of symbolic bytes (" + f.String() + ")"))
		}
		h ^= b.val
		h *= 1099511628211
	}
	return e.tt.Const(64, h)
}

func init() {
	intrinsics["github.com/cespare/xxhash.Sum64"] = inHashModel
	intrinsics["github.com/cespare/xxhash.Sum64String"] = inHashModel
	intrinsics["(*sync.Map).Load"] = func(e *Engine, c *frame, f *ssa.Function, a []Value) Value {
		ent := e.mapFind(e.syncMapOf(a[0]), a[1])
		if ent == nil {
			return Tuple{Iface{}, e.tt.False}
		}
		return Tuple{ent.V, e.tt.True}
	}
	intrinsics["(*sync.Map).Store"] = func(e *Engine, c *frame, f *ssa.Function, a []Value) Value {
		e.mapUpdate(e.syncMapOf(a[0]), a[1], a[2])
		return nil
	}
	intrinsics["(*sync.Map).LoadOrStore"] = func(e *Engine, c *frame, f *ssa.Function, a []Value) Value {
		m := e.syncMapOf(a[0])
		if ent := e.mapFind(m, a[1]); ent != nil {
			return Tuple{ent.V, e.tt.True}
		}
		e.mapUpdate(m, a[1], a[2])
		return Tuple{a[2], e.tt.False}
	}
	intrinsics["(*sync.Map).Delete"] = func(e *Engine, c *frame, f *ssa.Function, a []Value) Value {
		e.mapDelete(e.syncMapOf(a[0]), a[1])
		return nil
	}
	intrinsics["(*sync.Map).Range"] = func(e *Engine, c *frame, f *ssa.Function, a []Value) Value {
		m := e.syncMapOf(a[0])
		ents := append([]*MapEnt{}, m.ents...)
		for _, ent := range ents {
			r := e.call(c, a[1], []Value{ent.K, ent.V}, c.pos).(*Term)
			if !e.Decide(r) {
				break
			}
		}
		return nil
	}
}
