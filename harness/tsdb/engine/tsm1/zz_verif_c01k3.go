//go:build verif_harness

package tsm1

// C01-K3: the snapshot commit keeps every acknowledged write recoverable. Writes go to the WAL and
// the cache (as Engine.WritePoints does); Engine.WriteSnapshot (real: CloseSegment,
// ClosedSegments, Cache.Snapshot, Deduplicate, writeSnapshotAndCommit, Cache.ClearSnapshot,
// WAL.Remove) then moves them to a TSM file. Whatever the outcome of the two fallible steps
// (writing the snapshot file, installing it in the file store), a crash right after leaves every
// acknowledged point either in an installed TSM file or in a WAL segment that recovery replays,
// and the live cache still serves every point that is not yet in an installed file.
//
// The compactor's file writing and FileStore.Replace are engine-side outcome models (success or
// error, chosen by the solver); the harness therefore exists only in the engine (no native
// replay): counterexamples are confirmed by the engine's concrete mode.

import (
	"errors"
	"os"
	"path/filepath"

	"go.uber.org/zap"
)

func init() {
	vRegister("VerifHarness_C01_SnapshotCommit", VerifHarness_C01_SnapshotCommit)
}

var (
	vC01Pending   []vC01Pt   // content of the snapshot handed to the compactor (what its file holds)
	vC01Installed [][]vC01Pt // contents of the files installed in the file store
)

func vC01WriteSnapshotModel(c *Compactor, cache *Cache) ([]string, error) {
	if vEnvChoice("compactorWriteFails", 2) == 1 {
		return nil, errors.New("compactor: disk full")
	}
	// the file holds what the snapshot holds now (the engine resets the snapshot after the commit)
	vC01Pending = nil
	for _, x := range cache.Values([]byte("cpu")) {
		vC01Pending = append(vC01Pending, vC01Pt{"cpu", x.UnixNano(), x.Value().(int64)})
	}
	return []string{"000000001-000000001.tsm.tmp"}, nil
}

func vC01ReplaceModel(f *FileStore, oldFiles, newFiles []string) error {
	if vEnvChoice("fileStoreReplaceFails", 2) == 1 {
		return errors.New("file store: rename failed")
	}
	vC01Installed = append(vC01Installed, vC01Pending)
	return nil
}

type vC01Pt struct {
	key  string
	t, v int64
}

func vC01InCache(c *Cache, p vC01Pt) bool {
	if c == nil {
		return false
	}
	return vC01Has(c, p.key, p.t, p.v)
}

func vC01InFile(f []vC01Pt, p vC01Pt) bool {
	for _, q := range f {
		if q.key == p.key && q.t == p.t && q.v == p.v {
			return true
		}
	}
	return false
}

func VerifHarness_C01_SnapshotCommit() {
	vC01Pending, vC01Installed = nil, nil
	dir, err := os.MkdirTemp("", "verif-snap-")
	if err != nil {
		panic(err)
	}
	defer os.RemoveAll(dir)
	walDir := filepath.Join(dir, "wal")
	vAssume(os.MkdirAll(walDir, 0777) == nil)
	e := &Engine{path: dir, WALEnabled: true, logger: zap.NewNop(), traceLogger: zap.NewNop()}
	e.WAL = NewWAL(walDir)
	vAssume(e.WAL.Open() == nil)
	e.Cache = NewCache(1 << 30)
	e.FileStore = NewFileStore(dir)
	e.Compactor = &Compactor{FileStore: e.FileStore}

	var acked []vC01Pt
	write := func(tag string, t int64) {
		v := vInt64(tag)
		vals := map[string][]Value{"cpu": {NewIntegerValue(t, v)}}
		// Engine.WritePoints: cache first, then the WAL; the write is acknowledged when both returned
		vAssume(e.Cache.WriteMulti(vals) == nil)
		_, werr := e.WAL.WriteMulti(vals)
		vAssume(werr == nil)
		acked = append(acked, vC01Pt{"cpu", t, v})
	}
	// 1..2 acknowledged writes, a snapshot attempt, optionally a further write and a second attempt
	n := vLen("writesBefore", 1, 2)
	for i := 0; i < n; i++ {
		write("valueBefore", int64(i+1))
	}
	err1 := e.WriteSnapshot()
	rounds := vLen("furtherRounds", 0, 1)
	var err2 error
	if rounds == 1 {
		if vBool("writeBetween") {
			write("valueBetween", 10)
		}
		err2 = e.WriteSnapshot()
	}
	vObserve("err1", err1 != nil)
	vObserve("err2", err2 != nil)

	// the live engine serves every acknowledged point from the cache or an installed file
	for _, p := range acked {
		served := vC01InCache(e.Cache, p)
		for _, s := range vC01Installed {
			served = served || vC01InFile(s, p)
		}
		vAssert(served, "C01.acknowledged-write-served-after-snapshot-attempt")
	}
	// crash now: what recovery sees is the WAL directory plus the installed files
	vAssert(e.WAL.Close() == nil, "C01.close-ok")
	_, recovered, rerr := vC01Recover(walDir)
	vAssert(rerr == nil, "C01.recovery-ok")
	if rerr != nil {
		return
	}
	for _, p := range acked {
		durable := vC01InCache(recovered, p)
		for _, s := range vC01Installed {
			durable = durable || vC01InFile(s, p)
		}
		vAssert(durable, "C01.acknowledged-write-survives-crash-after-snapshot-attempt")
	}
	// a successful snapshot empties the WAL of what it persisted (no unbounded replay)
	if err1 == nil && rounds == 0 {
		vAssert(len(vC01Installed) == 1, "C01.successful-snapshot-installs-one-file")
		for _, p := range acked {
			vAssert(!vC01InCache(recovered, p), "C01.successful-snapshot-removes-its-wal-segments")
		}
	}
	vReach("C01.snapshotcommit.end")
}
