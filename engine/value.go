package main

import (
	"fmt"
	"go/types"
	"math"
	"strings"

	"golang.org/x/tools/go/ssa"
)

type Value interface{}

// Str is a Go string. B != nil means (some) bytes are symbolic; then len(B) is the length.
type Str struct {
	S string
	B []*Term
}

type Struct []Value
type Array []Value
type Tuple []Value

type Iface struct {
	T types.Type // nil: nil interface
	V Value
}

type Closure struct {
	Fn  *ssa.Function
	Env []Value
}

type MapEnt struct {
	K, V Value
}

type Map struct {
	KT, VT types.Type
	ents   []*MapEnt
}

type Chan struct {
	buf      []Value
	cap      int
	closed   bool
	ET       types.Type
	anyOrder bool // fed by run-to-completion tasks: recv may take any buffered element
	timer    bool // timer channel: ready or not by symbolic choice
	fired    bool
}

// UnsafeSlicePtr is unsafe.Pointer(&s[i]): the element pointer plus the rest of the slice.
type UnsafeSlicePtr struct {
	tail []Value
	elem *Value
}

// Poison marks a value that package init could not compute.
type Poison struct{ why string }

// Opaque wraps host-side state for intrinsics (iterators etc.)
type mapIter struct {
	m    *Map
	ents []*MapEnt // snapshot of remaining entries
	any  bool
}

type strIter struct {
	s   string
	pos int
}

func (s Str) Len() int {
	if s.B != nil {
		return len(s.B)
	}
	return len(s.S)
}

func (s Str) Concrete() bool { return s.B == nil }

func (e *Engine) strByte(s Str, i int) *Term {
	if s.B != nil {
		return s.B[i]
	}
	return e.tt.Const(8, uint64(s.S[i]))
}

func (e *Engine) strBytes(s Str) []*Term {
	if s.B != nil {
		return s.B
	}
	out := make([]*Term, len(s.S))
	for i := 0; i < len(s.S); i++ {
		out[i] = e.tt.Const(8, uint64(s.S[i]))
	}
	return out
}

func mkStrFromTerms(b []*Term) Str {
	all := true
	for _, t := range b {
		if !t.IsConst() {
			all = false
			break
		}
	}
	if all {
		bs := make([]byte, len(b))
		for i, t := range b {
			bs[i] = byte(t.val)
		}
		return Str{S: string(bs)}
	}
	cp := make([]*Term, len(b))
	copy(cp, b)
	return Str{B: cp}
}

func (e *Engine) strSlice(s Str, lo, hi int) Str {
	if s.B != nil {
		return mkStrFromTerms(s.B[lo:hi])
	}
	return Str{S: s.S[lo:hi]}
}

func (e *Engine) strConcat(a, b Str) Str {
	if a.B == nil && b.B == nil {
		return Str{S: a.S + b.S}
	}
	return mkStrFromTerms(append(append([]*Term{}, e.strBytes(a)...), e.strBytes(b)...))
}

func (e *Engine) strEq(a, b Str) *Term {
	if a.Len() != b.Len() {
		return e.tt.False
	}
	if a.B == nil && b.B == nil {
		return e.tt.Bool(a.S == b.S)
	}
	r := e.tt.True
	for i := 0; i < a.Len(); i++ {
		r = e.tt.And(r, e.tt.Eq(e.strByte(a, i), e.strByte(b, i)))
		if r.IsFalse() {
			break
		}
	}
	return r
}

// strLess: lexicographic a < b as a term.
func (e *Engine) strLess(a, b Str) *Term {
	if a.B == nil && b.B == nil {
		return e.tt.Bool(a.S < b.S)
	}
	n := a.Len()
	if b.Len() < n {
		n = b.Len()
	}
	// result = exists first differing i<n with a[i]<b[i], or all equal and len(a)<len(b)
	res := e.tt.Bool(a.Len() < b.Len())
	for i := n - 1; i >= 0; i-- {
		ai, bi := e.strByte(a, i), e.strByte(b, i)
		res = e.tt.Ite(e.tt.Eq(ai, bi), res, e.tt.Ult(ai, bi))
	}
	return res
}

// ---- type helpers

func isNamedType(t types.Type, pkg, name string) bool {
	n, ok := types.Unalias(t).(*types.Named)
	if !ok {
		return false
	}
	o := n.Obj()
	return o.Name() == name && o.Pkg() != nil && o.Pkg().Path() == pkg
}

func deref(t types.Type) types.Type {
	if p, ok := t.Underlying().(*types.Pointer); ok {
		return p.Elem()
	}
	panic(fmt.Sprintf("deref of non-pointer %v", t))
}

func basicInfo(t types.Type) (w uint8, signed bool, isFloat bool, ok bool) {
	b, isb := t.Underlying().(*types.Basic)
	if !isb {
		return 0, false, false, false
	}
	switch b.Kind() {
	case types.Bool, types.UntypedBool:
		return 0, false, false, true
	case types.Int8:
		return 8, true, false, true
	case types.Int16:
		return 16, true, false, true
	case types.Int32, types.UntypedRune:
		return 32, true, false, true
	case types.Int, types.Int64, types.UntypedInt:
		return 64, true, false, true
	case types.Uint8:
		return 8, false, false, true
	case types.Uint16:
		return 16, false, false, true
	case types.Uint32:
		return 32, false, false, true
	case types.Uint, types.Uint64, types.Uintptr:
		return 64, false, false, true
	case types.Float32:
		return 32, true, true, true
	case types.Float64, types.UntypedFloat:
		return 64, true, true, true
	case types.UnsafePointer:
		return 0, false, false, false
	}
	return 0, false, false, false
}

func (e *Engine) zero(t types.Type) Value {
	switch u := t.Underlying().(type) {
	case *types.Basic:
		if u.Info()&types.IsString != 0 {
			return Str{}
		}
		if u.Kind() == types.UnsafePointer {
			return (*Value)(nil)
		}
		if u.Kind() == types.UntypedNil {
			return nil
		}
		w, _, _, ok := basicInfo(u)
		if !ok {
			panic(e.unsupported("zero of basic type " + u.String()))
		}
		return e.tt.Const(w, 0)
	case *types.Pointer:
		return (*Value)(nil)
	case *types.Struct:
		s := make(Struct, u.NumFields())
		for i := range s {
			s[i] = e.zero(u.Field(i).Type())
		}
		return s
	case *types.Array:
		a := make(Array, u.Len())
		for i := range a {
			a[i] = e.zero(u.Elem())
		}
		return a
	case *types.Slice:
		return []Value(nil)
	case *types.Map:
		return (*Map)(nil)
	case *types.Chan:
		return (*Chan)(nil)
	case *types.Signature:
		return (*Closure)(nil)
	case *types.Interface:
		return Iface{}
	case *types.Tuple:
		if u.Len() == 1 {
			return e.zero(u.At(0).Type())
		}
		tp := make(Tuple, u.Len())
		for i := range tp {
			tp[i] = e.zero(u.At(i).Type())
		}
		return tp
	}
	panic(e.unsupported(fmt.Sprintf("zero of %T %v", t, t)))
}

// copyVal copies aggregates (value semantics).
func copyVal(v Value) Value {
	switch v := v.(type) {
	case Struct:
		c := make(Struct, len(v))
		for i, x := range v {
			c[i] = copyVal(x)
		}
		return c
	case Array:
		c := make(Array, len(v))
		for i, x := range v {
			c[i] = copyVal(x)
		}
		return c
	case Tuple:
		panic("copyVal of tuple")
	}
	return v
}

func (e *Engine) load(addr *Value) Value {
	if addr == nil {
		panic(e.targetPanicStr("runtime error: invalid memory address or nil pointer dereference"))
	}
	return copyVal(*addr)
}

// store writes v into *addr in place (so that field addresses stay valid), journaling old values.
func (e *Engine) store(addr *Value, v Value) {
	if addr == nil {
		panic(e.targetPanicStr("runtime error: invalid memory address or nil pointer dereference"))
	}
	switch rhs := v.(type) {
	case Struct:
		lhs, ok := (*addr).(Struct)
		if ok && len(lhs) == len(rhs) {
			for i := range lhs {
				e.store(&lhs[i], rhs[i])
			}
			return
		}
		e.rawStore(addr, copyVal(v))
		return
	case Array:
		lhs, ok := (*addr).(Array)
		if ok && len(lhs) == len(rhs) {
			for i := range lhs {
				e.store(&lhs[i], rhs[i])
			}
			return
		}
		e.rawStore(addr, copyVal(v))
		return
	}
	e.rawStore(addr, v)
}

func (e *Engine) rawStore(addr *Value, v Value) {
	if e.journalOn {
		e.journal = append(e.journal, undo{cell: addr, old: *addr})
	}
	*addr = v
}

// ---- float helpers (concrete only)

func f64(t *Term) float64 { return math.Float64frombits(t.val) }
func f32(t *Term) float32 { return math.Float32frombits(uint32(t.val)) }

func (e *Engine) constFloat(w uint8, f float64) *Term {
	if w == 32 {
		return e.tt.Const(32, uint64(math.Float32bits(float32(f))))
	}
	return e.tt.Const(64, math.Float64bits(f))
}

func floatOf(t *Term) float64 {
	if t.w == 32 {
		return float64(f32(t))
	}
	return f64(t)
}

// ---- debug printing

func valString(v Value) string {
	switch v := v.(type) {
	case nil:
		return "nil"
	case *Term:
		return v.String()
	case Str:
		if v.B == nil {
			return fmt.Sprintf("%q", v.S)
		}
		parts := make([]string, len(v.B))
		for i, b := range v.B {
			parts[i] = b.String()
		}
		return "str[" + strings.Join(parts, ",") + "]"
	case Struct:
		parts := make([]string, len(v))
		for i, x := range v {
			parts[i] = valString(x)
		}
		return "{" + strings.Join(parts, ", ") + "}"
	case Array:
		parts := make([]string, len(v))
		for i, x := range v {
			parts[i] = valString(x)
		}
		return "[" + strings.Join(parts, ", ") + "]"
	case []Value:
		if v == nil {
			return "[]nil"
		}
		parts := make([]string, len(v))
		for i, x := range v {
			if i > 16 {
				parts = append(parts[:i], "...")
				break
			}
			parts[i] = valString(x)
		}
		return "[]{" + strings.Join(parts, ", ") + "}"
	case *Value:
		if v == nil {
			return "nilptr"
		}
		return fmt.Sprintf("&%p", v)
	case Iface:
		if v.T == nil {
			return "nil-iface"
		}
		return fmt.Sprintf("iface(%v, %s)", v.T, valString(v.V))
	case Tuple:
		parts := make([]string, len(v))
		for i, x := range v {
			parts[i] = valString(x)
		}
		return "(" + strings.Join(parts, ", ") + ")"
	}
	return fmt.Sprintf("%T", v)
}
