#!/usr/bin/env python3
# usage: addfinding.py prop id harness label status commit "exclusion" "description"
import json,sys
prop,fid,harness,label,status,commit,excl,desc=sys.argv[1:9]
p='/verif/known_findings.json'
d=json.load(open(p))
d['findings']=[f for f in d['findings'] if f['id']!=fid]
f={"property":prop,"id":fid,"harness":harness,"label":label,"exclusion":excl,"description":(f"fixed: property={prop} {commit} " if status=='fixed' else '')+desc,"status":status}
if commit: f['commit']=commit
d['findings'].append(f)
json.dump(d,open(p,'w'),indent=1)
