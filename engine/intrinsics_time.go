package main

// time.Time abstraction: Struct{wall, ext, loc} with wall==0 ⇒ the zero Time, wall==1 ⇒ ext is
// Unix nanoseconds (signed 64 bit). Location is ignored (all times are UTC wall times).
// harness intrinsics (v* functions).

import (
	"fmt"
	"go/types"
	"math/big"
	"os"
	"strings"

	"golang.org/x/tools/go/ssa"
)

// A time is a signed 72-bit count of Unix nanoseconds (hi8:lo64, two's complement) so that
// "in-range time + duration" never wraps (Data.CreateShardGroup relies on comparing such a sum
// with MaxNanoTime). wall = hi8<<8 | 1 (bit 0: "set"), ext = lo64. The zero Time is all zero.
func (e *Engine) mkTimeWide(hi8, lo *Term) Value {
	wall := e.tt.Concat(e.tt.Const(48, 0), e.tt.Concat(hi8, e.tt.Const(8, 1)))
	return Struct{wall, lo, (*Value)(nil)}
}

func (e *Engine) sext8(lo *Term) *Term { return e.tt.SExt(e.tt.Extract(lo, 63, 63), 8) }

func (e *Engine) mkTime(ns *Term) Value { return e.mkTimeWide(e.sext8(ns), ns) }

func (e *Engine) timeWide(v Value) (set, hi8, lo *Term) {
	st, ok := v.(Struct)
	if !ok {
		if p, ok := v.(*Value); ok && p != nil {
			st = (*p).(Struct)
		} else {
			panic(e.unsupported(fmt.Sprintf("time value %T", v)))
		}
	}
	wall := st[0].(*Term)
	return e.tt.Extract(wall, 0, 0), e.tt.Extract(wall, 15, 8), st[1].(*Term)
}

// timeParts returns (set flag as 64-bit 0/1, ns) for operations that need the time to lie in the
// int64 nanosecond range; a time outside it ends the path as unsupported.
func (e *Engine) timeParts(v Value) (set *Term, ns *Term) {
	s1, hi, lo := e.timeWide(v)
	inRange := e.tt.Eq(hi, e.sext8(lo))
	if !inRange.IsTrue() {
		if !e.Decide(inRange) {
			panic(e.unsupported("time.Time outside the int64 nanosecond range used where its UnixNano is needed"))
		}
	}
	return e.tt.ZExt(s1, 64), lo
}

func (e *Engine) wideLess(ah, al, bh, bl *Term) *Term {
	return e.tt.Or(e.tt.Slt(ah, bh), e.tt.And(e.tt.Eq(ah, bh), e.tt.Ult(al, bl)))
}

func (e *Engine) timeBefore(a, b Value) *Term {
	as, ah, al := e.timeWide(a)
	bs, bh, bl := e.timeWide(b)
	return e.tt.Or(e.tt.Ult(as, bs), e.tt.And(e.tt.Eq(as, bs), e.wideLess(ah, al, bh, bl)))
}

func (e *Engine) timeEqual(a, b Value) *Term {
	as, ah, al := e.timeWide(a)
	bs, bh, bl := e.timeWide(b)
	return e.tt.And(e.tt.Eq(as, bs), e.tt.And(e.tt.Eq(ah, bh), e.tt.Eq(al, bl)))
}

const maxNowNs = uint64(1) << 62

func registerTimeIntrinsics() {
	tm := map[string]intrinsic{
		"time.Now": func(e *Engine, c *frame, f *ssa.Function, a []Value) Value {
			now := e.symScalar("now", "time.Now", 64)
			lo := e.tt.Const(64, 0)
			if e.path.lastNow != nil {
				lo = e.path.lastNow
			}
			e.Assume(e.tt.And(e.tt.Sle(lo, now), e.tt.Slt(now, e.tt.Const(64, maxNowNs))))
			e.path.lastNow = now
			return e.mkTime(now)
		},
		"time.Unix": func(e *Engine, c *frame, f *ssa.Function, a []Value) Value {
			sec, nsec := a[0].(*Term), a[1].(*Term)
			if sec.IsConst() && sec.val == 0 {
				return e.mkTime(nsec)
			}
			return e.mkTime(e.tt.Bin(OpAdd, e.tt.Bin(OpMul, sec, e.tt.Const(64, 1000000000)), nsec))
		},
		"time.UnixMilli": func(e *Engine, c *frame, f *ssa.Function, a []Value) Value {
			return e.mkTime(e.tt.Bin(OpMul, a[0].(*Term), e.tt.Const(64, 1000000)))
		},
		"(time.Time).UnixNano": func(e *Engine, c *frame, f *ssa.Function, a []Value) Value {
			_, ns := e.timeParts(a[0])
			return ns
		},
		"(time.Time).Unix": func(e *Engine, c *frame, f *ssa.Function, a []Value) Value {
			_, ns := e.timeParts(a[0])
			// floor division by 1e9
			q := e.tt.Bin(OpSDiv, ns, e.tt.Const(64, 1000000000))
			r := e.tt.Bin(OpSRem, ns, e.tt.Const(64, 1000000000))
			return e.tt.Ite(e.tt.Slt(r, e.tt.Const(64, 0)), e.tt.Bin(OpSub, q, e.tt.Const(64, 1)), q)
		},
		"(time.Time).IsZero": func(e *Engine, c *frame, f *ssa.Function, a []Value) Value {
			s, _, _ := e.timeWide(a[0])
			return e.tt.Eq(s, e.tt.Const(1, 0))
		},
		"(time.Time).Before": func(e *Engine, c *frame, f *ssa.Function, a []Value) Value { return e.timeBefore(a[0], a[1]) },
		"(time.Time).After":  func(e *Engine, c *frame, f *ssa.Function, a []Value) Value { return e.timeBefore(a[1], a[0]) },
		"(time.Time).Equal":  func(e *Engine, c *frame, f *ssa.Function, a []Value) Value { return e.timeEqual(a[0], a[1]) },
		"(time.Time).Compare": func(e *Engine, c *frame, f *ssa.Function, a []Value) Value {
			return e.tt.Ite(e.timeBefore(a[0], a[1]), e.tt.Const(64, ^uint64(0)),
				e.tt.Ite(e.timeBefore(a[1], a[0]), e.tt.Const(64, 1), e.tt.Const(64, 0)))
		},
		"(time.Time).UTC":   func(e *Engine, c *frame, f *ssa.Function, a []Value) Value { return a[0] },
		"(time.Time).Local": func(e *Engine, c *frame, f *ssa.Function, a []Value) Value { return a[0] },
		"(time.Time).In":    func(e *Engine, c *frame, f *ssa.Function, a []Value) Value { return a[0] },
		"(time.Time).Round": func(e *Engine, c *frame, f *ssa.Function, a []Value) Value {
			d := a[1].(*Term)
			if d.IsConst() && d.S() <= 1 {
				return a[0]
			}
			panic(e.unsupported("time.Round with d>1"))
		},
		"(time.Time).Location": func(e *Engine, c *frame, f *ssa.Function, a []Value) Value {
			return e.load(e.globalAddr(f.Pkg.Members["UTC"].(*ssa.Global)))
		},
		"(time.Time).Add": func(e *Engine, c *frame, f *ssa.Function, a []Value) Value {
			s, hi, lo := e.timeWide(a[0])
			d := a[1].(*Term)
			// the zero Time plus a duration is not representable in the abstraction
			if !s.IsConst() {
				if e.Decide(e.tt.Eq(s, e.tt.Const(1, 0))) {
					panic(e.unsupported("Add on the zero time.Time"))
				}
			} else if s.val == 0 {
				panic(e.unsupported("Add on the zero time.Time"))
			}
			// 72-bit addition with carry
			nlo := e.tt.Bin(OpAdd, lo, d)
			carry := e.tt.Ite(e.tt.Ult(nlo, lo), e.tt.Const(8, 1), e.tt.Const(8, 0))
			nhi := e.tt.Bin(OpAdd, e.tt.Bin(OpAdd, hi, e.sext8(d)), carry)
			return e.mkTimeWide(nhi, nlo)
		},
		"(time.Time).Sub": func(e *Engine, c *frame, f *ssa.Function, a []Value) Value {
			as, ah, al := e.timeWide(a[0])
			bs, bh, bl := e.timeWide(a[1])
			if !(as.IsConst() && as.val == 1 && bs.IsConst() && bs.val == 1) {
				if !e.Decide(e.tt.And(e.tt.Eq(as, e.tt.Const(1, 1)), e.tt.Eq(bs, e.tt.Const(1, 1)))) {
					panic(e.unsupported("Sub involving the zero time.Time"))
				}
			}
			// 72-bit subtraction, saturated to int64 like the real implementation
			dlo := e.tt.Bin(OpSub, al, bl)
			borrow := e.tt.Ite(e.tt.Ult(al, bl), e.tt.Const(8, 1), e.tt.Const(8, 0))
			dhi := e.tt.Bin(OpSub, e.tt.Bin(OpSub, ah, bh), borrow)
			fits := e.tt.Eq(dhi, e.sext8(dlo))
			neg := e.tt.Slt(dhi, e.tt.Const(8, 0))
			return e.tt.Ite(fits, dlo, e.tt.Ite(neg, e.tt.Const(64, 1<<63), e.tt.Const(64, 1<<63-1)))
		},
		"time.Since": func(e *Engine, c *frame, f *ssa.Function, a []Value) Value {
			now := intrinsics["time.Now"](e, c, f, nil)
			return intrinsics["(time.Time).Sub"](e, c, f, []Value{now, a[0]})
		},
		"time.Until": func(e *Engine, c *frame, f *ssa.Function, a []Value) Value {
			now := intrinsics["time.Now"](e, c, f, nil)
			return intrinsics["(time.Time).Sub"](e, c, f, []Value{a[0], now})
		},
		"(time.Time).Truncate": inTimeTruncate,
		"(time.Time).String":   func(e *Engine, c *frame, f *ssa.Function, a []Value) Value { return e.opaqueString("time") },
		"(time.Time).Format":   func(e *Engine, c *frame, f *ssa.Function, a []Value) Value { return e.opaqueString("time") },
		"(time.Time).GoString": func(e *Engine, c *frame, f *ssa.Function, a []Value) Value { return e.opaqueString("time") },
		"time.NewTimer": func(e *Engine, c *frame, f *ssa.Function, a []Value) Value {
			tt := f.Signature.Results().At(0).Type() // *Timer
			cell := new(Value)
			st := e.zero(deref(tt)).(Struct)
			st[0] = &Chan{cap: 1, ET: timeType(f), timer: true}
			*cell = st
			return cell
		},
		"time.NewTicker": func(e *Engine, c *frame, f *ssa.Function, a []Value) Value {
			tt := f.Signature.Results().At(0).Type()
			cell := new(Value)
			st := e.zero(deref(tt)).(Struct)
			st[0] = &Chan{cap: 1, ET: timeType(f), timer: true}
			*cell = st
			return cell
		},
		"time.After": func(e *Engine, c *frame, f *ssa.Function, a []Value) Value {
			return &Chan{cap: 1, ET: timeType(f), timer: true}
		},
		"time.Tick": func(e *Engine, c *frame, f *ssa.Function, a []Value) Value {
			return &Chan{cap: 1, ET: timeType(f), timer: true}
		},
		"(*time.Timer).Stop":  func(e *Engine, c *frame, f *ssa.Function, a []Value) Value { return e.tt.True },
		"(*time.Timer).Reset": func(e *Engine, c *frame, f *ssa.Function, a []Value) Value { return e.tt.True },
		"(*time.Ticker).Stop": noop,
		"(*time.Ticker).Reset": noop,
		"time.AfterFunc": func(e *Engine, c *frame, f *ssa.Function, a []Value) Value {
			panic(e.unsupported("time.AfterFunc"))
		},
	}
	for k, v := range tm {
		intrinsics[k] = v
	}
}

// ---- time.Time binary codec (15-byte version-1 form). Concrete times are encoded exactly. A
// symbolic time is encoded as 12 fresh byte symbols remembered in a per-path side table, and
// decoding exactly those symbols gives the time back (the codec as an uninterpreted bijection:
// what callers such as models.point rely on). Decoding other symbolic bytes yields an
// unconstrained time (an over-approximation; the codec itself is not under test).

const unixToInternal = 62135596800

type timeCodecEntry struct {
	hi, lo *Term
	bytes  [12]*Term
}

func inTimeMarshalBinary(e *Engine, c *frame, f *ssa.Function, a []Value) Value {
	set, hi, lo := e.timeWide(a[0])
	out := make([]Value, 15)
	out[0] = e.tt.Const(8, 1)
	out[13], out[14] = e.tt.Const(8, 0xff), e.tt.Const(8, 0xff)
	nilErr := Iface{}
	if set.IsConst() && set.val == 0 {
		// the zero Time: sec = 0, nsec = 0
		for i := 1; i <= 12; i++ {
			out[i] = e.tt.Const(8, 0)
		}
		return Tuple{out, nilErr}
	}
	if !set.IsConst() {
		if e.Decide(e.tt.Eq(set, e.tt.Const(1, 0))) {
			for i := 1; i <= 12; i++ {
				out[i] = e.tt.Const(8, 0)
			}
			return Tuple{out, nilErr}
		}
	}
	if hi.IsConst() && lo.IsConst() && hi.val == e.sext8(lo).val {
		ns := lo.S()
		sec := ns / 1000000000
		nsec := ns % 1000000000
		if nsec < 0 {
			nsec += 1000000000
			sec--
		}
		sec += unixToInternal
		for i := 0; i < 8; i++ {
			out[1+i] = e.tt.Const(8, uint64(sec>>(56-8*uint(i)))&0xff)
		}
		for i := 0; i < 4; i++ {
			out[9+i] = e.tt.Const(8, uint64(nsec>>(24-8*uint(i)))&0xff)
		}
		return Tuple{out, nilErr}
	}
	ent := &timeCodecEntry{hi: hi, lo: lo}
	for i := 0; i < 12; i++ {
		ent.bytes[i] = e.freshVar("timeBin", 8)
		out[1+i] = ent.bytes[i]
	}
	if e.path.timeCodec == nil {
		e.path.timeCodec = map[*Term]*timeCodecEntry{}
	}
	e.path.timeCodec[ent.bytes[0]] = ent
	return Tuple{out, nilErr}
}

func (e *Engine) mkError(msg string) Value {
	errPkg := e.prog.ImportedPackage("errors")
	es := errPkg.Members["errorString"].(*ssa.Type)
	cell := new(Value)
	*cell = Struct{Str{S: msg}}
	return Iface{T: types.NewPointer(es.Type()), V: cell}
}

func inTimeUnmarshalBinary(e *Engine, c *frame, f *ssa.Function, a []Value) Value {
	dst := a[0].(*Value)
	data := a[1].([]Value)
	if len(data) == 0 {
		return e.mkError("Time.UnmarshalBinary: no data")
	}
	ver := data[0].(*Term)
	isV1 := e.tt.Eq(ver, e.tt.Const(8, 1))
	isV2 := e.tt.Eq(ver, e.tt.Const(8, 2))
	if !e.Decide(e.tt.Or(isV1, isV2)) {
		return e.mkError("Time.UnmarshalBinary: unsupported version")
	}
	want := 15
	if e.Decide(isV2) {
		want = 16
	}
	if len(data) != want {
		return e.mkError("Time.UnmarshalBinary: invalid length")
	}
	bs := make([]*Term, 12)
	allConst := true
	for i := range bs {
		bs[i] = data[1+i].(*Term)
		if !bs[i].IsConst() {
			allConst = false
		}
	}
	var tv Value
	switch {
	case allConst:
		var sec uint64
		for i := 0; i < 8; i++ {
			sec = sec<<8 | bs[i].val
		}
		var nsec uint32
		for i := 0; i < 4; i++ {
			nsec = nsec<<8 | uint32(bs[8+i].val)
		}
		s := new(big.Int).SetInt64(int64(sec))
		s.Sub(s, big.NewInt(unixToInternal))
		s.Mul(s, big.NewInt(1000000000))
		s.Add(s, big.NewInt(int64(int32(nsec))))
		if s.BitLen() > 70 {
			panic(e.unsupported("time.UnmarshalBinary: instant outside the 72-bit range of the time abstraction"))
		}
		// two's complement split into hi8:lo64
		mod := new(big.Int).Lsh(big.NewInt(1), 72)
		if s.Sign() < 0 {
			s.Add(s, mod)
		}
		lo := new(big.Int).And(s, new(big.Int).SetUint64(^uint64(0))).Uint64()
		hi := new(big.Int).Rsh(s, 64).Uint64() & 0xff
		if sec == 0 && nsec == 0 {
			tv = Struct{e.tt.Const(64, 0), e.tt.Const(64, 0), (*Value)(nil)} // the zero Time
		} else {
			tv = e.mkTimeWide(e.tt.Const(8, hi), e.tt.Const(64, lo))
		}
	default:
		var ent *timeCodecEntry
		if e.path.timeCodec != nil {
			ent = e.path.timeCodec[bs[0]]
		}
		match := ent != nil
		if match {
			for i := range bs {
				if ent.bytes[i] != bs[i] {
					match = false
				}
			}
		}
		if match {
			tv = e.mkTimeWide(ent.hi, ent.lo)
		} else {
			tv = e.mkTimeWide(e.freshVar("timeDecHi", 8), e.freshVar("timeDecLo", 64))
		}
	}
	e.store(dst, tv)
	return Iface{}
}

func init() {
	intrinsics["(time.Time).MarshalBinary"] = inTimeMarshalBinary
	intrinsics["(*time.Time).UnmarshalBinary"] = inTimeUnmarshalBinary
}

func timeType(f *ssa.Function) types.Type {
	return f.Pkg.Members["Time"].(*ssa.Type).Type()
}

// Truncate(d): real semantics are relative to the zero Time (year 1), i.e. to Unix time
// -62135596800 s. For constant d>0: r = t - ((t - zero) mod d).
func inTimeTruncate(e *Engine, c *frame, f *ssa.Function, a []Value) Value {
	s, ns := e.timeParts(a[0])
	d := a[1].(*Term)
	if !d.IsConst() {
		panic(e.unsupported("Truncate with symbolic duration"))
	}
	if d.S() <= 0 {
		return a[0]
	}
	if !(s.IsConst() && s.val == 1) {
		if e.Decide(e.tt.Eq(s, e.tt.Const(64, 0))) {
			return a[0] // zero time truncates to itself (it is a multiple of every d)
		}
	}
	if d.S() == 1 {
		return a[0]
	}
	// offm = (62135596800e9) mod d
	off := new(big.Int).Mul(big.NewInt(62135596800), big.NewInt(1000000000))
	offm := new(big.Int).Mod(off, big.NewInt(d.S())).Uint64()
	tt := e.tt
	dd := tt.Const(64, uint64(d.S()))
	var r *Term
	if ns.IsConst() {
		rv := ns.S() % d.S()
		if rv < 0 {
			rv += d.S()
		}
		r = tt.Const(64, uint64(rv))
	} else {
		// Away from the ends of the int64 range the floor-division is axiomatised with fresh
		// quotient/remainder symbols (ns = q*d + r0, 0 <= r0 < d): multiplication by a constant
		// instead of a 64-bit divider circuit, which is what makes these queries tractable.
		margin := 2 * d.S()
		lo := tt.Const(64, uint64(int64(-1<<63)+margin))
		hi := tt.Const(64, uint64(int64(1<<63-1)-margin))
		if e.Decide(tt.And(tt.Sle(lo, ns), tt.Sle(ns, hi))) {
			q := e.freshVar("truncQ", 64)
			r0 := e.freshVar("truncR", 64)
			qlo := tt.Const(64, uint64(int64(-1<<63)/d.S()-1))
			qhi := tt.Const(64, uint64(int64(1<<63-1)/d.S()+1))
			e.Assume(tt.And(tt.And(tt.Eq(ns, tt.Bin(OpAdd, tt.Bin(OpMul, q, dd), r0)), tt.Ult(r0, dd)),
				tt.And(tt.Sle(qlo, q), tt.Sle(q, qhi))))
			r = r0
		} else {
			// floor-mod of ns by d
			r = tt.Bin(OpSRem, ns, dd)
			r = tt.Ite(tt.Slt(r, tt.Const(64, 0)), tt.Bin(OpAdd, r, dd), r)
		}
	}
	m := tt.Bin(OpAdd, r, tt.Const(64, offm))
	m = tt.Ite(tt.Ule(dd, m), tt.Bin(OpSub, m, dd), m)
	// ns - m may fall below the int64 range (MinNanoTime truncated to a week): 72-bit subtraction
	nlo := tt.Bin(OpSub, ns, m)
	borrow := tt.Ite(tt.Ult(ns, m), tt.Const(8, 1), tt.Const(8, 0))
	return e.mkTimeWide(tt.Bin(OpSub, e.sext8(ns), borrow), nlo)
}

// ---------------------------------------------------------------------------------------------
// harness intrinsics

var harnessIntrinsics map[string]intrinsic

var debugLenCap = func() int {
	n := 0
	fmt.Sscanf(os.Getenv("VERIF_LEN_CAP"), "%d", &n)
	return n
}()

func strArg(e *Engine, v Value) string {
	s, ok := v.(Str)
	if !ok || !s.Concrete() {
		panic(e.unsupported("harness tag/label must be a concrete string"))
	}
	return s.S
}

func intArg(e *Engine, v Value) int {
	t := v.(*Term)
	if !t.IsConst() {
		panic(e.unsupported("harness bound must be concrete"))
	}
	return int(t.S())
}

// nextReplay pops the next recorded input in concrete mode.
func (e *Engine) nextReplay(kind, tag string) *InputRec {
	p := e.path
	if p.replayIn == nil {
		return nil
	}
	if kind == "now" && (p.replayPos >= len(p.replayIn) || p.replayIn[p.replayPos].Kind != "now") {
		// vectors recorded by the native build have no clock readings: use a fixed 2026 instant
		p.synthNow += 1000
		return &InputRec{Kind: "now", Tag: tag, Vals: []uint64{1790000000000000000 + p.synthNow}}
	}
	if p.replayPos >= len(p.replayIn) {
		panic(boundErr{fmt.Sprintf("concrete replay ran out of inputs at %s %q", kind, tag)})
	}
	r := &p.replayIn[p.replayPos]
	p.replayPos++
	if r.Kind != kind {
		panic(boundErr{fmt.Sprintf("concrete replay mismatch: want %s %q, recorded %s %q", kind, tag, r.Kind, r.Tag)})
	}
	return r
}

// nextReplayEnv: in concrete mode an "env" choice is taken from the recording when the next
// record is one; vectors recorded natively have none, then alternative 0 is used.
func (e *Engine) nextReplayEnv(tag string) *InputRec {
	p := e.path
	if p.replayIn == nil {
		return nil
	}
	if p.replayPos < len(p.replayIn) && p.replayIn[p.replayPos].Kind == "env" {
		r := &p.replayIn[p.replayPos]
		p.replayPos++
		return r
	}
	return &InputRec{Kind: "env", Tag: tag, N: 0}
}

func (e *Engine) symScalar(kind, tag string, w uint8) *Term {
	if r := e.nextReplay(kind, tag); r != nil {
		t := e.tt.Const(w, r.Vals[0])
		e.path.inputs = append(e.path.inputs, InputRec{Kind: kind, Tag: tag, terms: []*Term{t}})
		return t
	}
	t := e.freshVar(tag, w)
	e.path.inputs = append(e.path.inputs, InputRec{Kind: kind, Tag: tag, terms: []*Term{t}})
	return t
}

func (e *Engine) symBytes(kind, tag string, n int) []*Term {
	ts := make([]*Term, n)
	if r := e.nextReplay(kind, tag); r != nil {
		if len(r.Vals) != n {
			panic(boundErr{fmt.Sprintf("concrete replay: %s %q length %d, recorded %d", kind, tag, n, len(r.Vals))})
		}
		for i := range ts {
			ts[i] = e.tt.Const(8, r.Vals[i])
		}
	} else {
		for i := range ts {
			ts[i] = e.freshVar(fmt.Sprintf("%s[%d]", tag, i), 8)
		}
	}
	e.path.inputs = append(e.path.inputs, InputRec{Kind: kind, Tag: tag, N: n, terms: ts})
	return ts
}

func registerHarnessIntrinsics() {
	harnessIntrinsics = map[string]intrinsic{
		"vLen": func(e *Engine, c *frame, f *ssa.Function, a []Value) Value {
			tag, lo, hi := strArg(e, a[0]), intArg(e, a[1]), intArg(e, a[2])
			if debugLenCap > 0 && hi > debugLenCap && lo <= debugLenCap {
				hi = debugLenCap // experiments only (VERIF_LEN_CAP); never set by registered checks
			}
			if hi < lo {
				panic(pathEnd{"assume"})
			}
			var n int
			if r := e.nextReplay("len", tag); r != nil {
				n = r.N
			} else {
				n = lo + e.Choose(hi-lo+1)
			}
			e.path.inputs = append(e.path.inputs, InputRec{Kind: "len", Tag: tag, N: n})
			return e.tt.Const(64, uint64(n))
		},
		"vChoice": func(e *Engine, c *frame, f *ssa.Function, a []Value) Value {
			tag, n := strArg(e, a[0]), intArg(e, a[1])
			var k int
			if r := e.nextReplay("choice", tag); r != nil {
				k = r.N
			} else {
				k = e.Choose(n)
			}
			e.path.inputs = append(e.path.inputs, InputRec{Kind: "choice", Tag: tag, N: k})
			return e.tt.Const(64, uint64(k))
		},
		// vEnvChoice: a nondeterministic choice of an environment model that only exists in the
		// engine (replacement functions); recorded as kind "env", which the native runtime skips.
		"vEnvChoice": func(e *Engine, c *frame, f *ssa.Function, a []Value) Value {
			tag, n := strArg(e, a[0]), intArg(e, a[1])
			var k int
			if r := e.nextReplayEnv(tag); r != nil {
				k = r.N
			} else {
				k = e.Choose(n)
			}
			e.path.inputs = append(e.path.inputs, InputRec{Kind: "env", Tag: tag, N: k})
			return e.tt.Const(64, uint64(k))
		},
		// fork-free combinators for oracles
		"vIte64": func(e *Engine, c *frame, f *ssa.Function, a []Value) Value {
			return e.tt.Ite(a[0].(*Term), a[1].(*Term), a[2].(*Term))
		},
		"vAnd": func(e *Engine, c *frame, f *ssa.Function, a []Value) Value { return e.tt.And(a[0].(*Term), a[1].(*Term)) },
		"vOr":  func(e *Engine, c *frame, f *ssa.Function, a []Value) Value { return e.tt.Or(a[0].(*Term), a[1].(*Term)) },
		"vBool": func(e *Engine, c *frame, f *ssa.Function, a []Value) Value {
			t := e.symScalar("bool", strArg(e, a[0]), 0)
			return t
		},
		"vByte":   func(e *Engine, c *frame, f *ssa.Function, a []Value) Value { return e.symScalar("u8", strArg(e, a[0]), 8) },
		"vUint16": func(e *Engine, c *frame, f *ssa.Function, a []Value) Value { return e.symScalar("u16", strArg(e, a[0]), 16) },
		"vUint32": func(e *Engine, c *frame, f *ssa.Function, a []Value) Value { return e.symScalar("u32", strArg(e, a[0]), 32) },
		"vInt32":  func(e *Engine, c *frame, f *ssa.Function, a []Value) Value { return e.symScalar("i32", strArg(e, a[0]), 32) },
		"vInt64":  func(e *Engine, c *frame, f *ssa.Function, a []Value) Value { return e.symScalar("i64", strArg(e, a[0]), 64) },
		"vUint64": func(e *Engine, c *frame, f *ssa.Function, a []Value) Value { return e.symScalar("u64", strArg(e, a[0]), 64) },
		"vInt":    func(e *Engine, c *frame, f *ssa.Function, a []Value) Value { return e.symScalar("i64", strArg(e, a[0]), 64) },
		"vFloat64": func(e *Engine, c *frame, f *ssa.Function, a []Value) Value {
			return e.symScalar("f64", strArg(e, a[0]), 64)
		},
		"vRange": func(e *Engine, c *frame, f *ssa.Function, a []Value) Value {
			t := e.symScalar("i64", strArg(e, a[0]), 64)
			lo, hi := a[1].(*Term), a[2].(*Term)
			e.Assume(e.tt.And(e.tt.Sle(lo, t), e.tt.Sle(t, hi)))
			return t
		},
		"vBytes": func(e *Engine, c *frame, f *ssa.Function, a []Value) Value {
			ts := e.symBytes("bytes", strArg(e, a[0]), intArg(e, a[1]))
			out := make([]Value, len(ts))
			for i, t := range ts {
				out[i] = t
			}
			return out
		},
		"vString": func(e *Engine, c *frame, f *ssa.Function, a []Value) Value {
			ts := e.symBytes("str", strArg(e, a[0]), intArg(e, a[1]))
			return mkStrFromTerms(ts)
		},
		"vAssume": func(e *Engine, c *frame, f *ssa.Function, a []Value) Value {
			e.Assume(a[0].(*Term))
			return nil
		},
		"vAssert": func(e *Engine, c *frame, f *ssa.Function, a []Value) Value {
			e.Assert(a[0].(*Term), strArg(e, a[1]), nil, "")
			return nil
		},
		"vAssertKF": func(e *Engine, c *frame, f *ssa.Function, a []Value) Value {
			e.Assert(a[0].(*Term), strArg(e, a[1]), a[2].(*Term), strArg(e, a[3]))
			return nil
		},
		"vReach": func(e *Engine, c *frame, f *ssa.Function, a []Value) Value {
			e.path.reached[strArg(e, a[0])] = true
			return nil
		},
		"vObserve": func(e *Engine, c *frame, f *ssa.Function, a []Value) Value {
			tag := strArg(e, a[0])
			e.observe(tag, a[1])
			return nil
		},
		"vThorough": func(e *Engine, c *frame, f *ssa.Function, a []Value) Value {
			return e.tt.Bool(e.cfg.Tier == "thorough")
		},
		"vRegister": noop,
		"vSymbolic": func(e *Engine, c *frame, f *ssa.Function, a []Value) Value {
			return e.tt.Bool(e.path.replayIn == nil)
		},
		// vMerge(f func() T) T: explore f's paths in a sub-execution and join the results into
		// one ite value (f must be side-effect free w.r.t. pre-existing state).
		"vFail": func(e *Engine, c *frame, f *ssa.Function, a []Value) Value {
			e.Assert(e.tt.False, strArg(e, a[0]), nil, "")
			return nil
		},
	}
}

func (e *Engine) observe(tag string, v Value) {
	var s string
	switch x := v.(type) {
	case Iface:
		e.observe(tag, x.V)
		return
	case *Term:
		if x.IsConst() {
			if x.w == 0 {
				s = fmt.Sprintf("%v", x.val != 0)
			} else {
				s = fmt.Sprintf("%d", x.val)
			}
		} else {
			s = "sym"
		}
	case Str:
		if x.Concrete() {
			s = fmt.Sprintf("%x", x.S)
		} else {
			s = "sym"
		}
	case []Value:
		var sb strings.Builder
		for _, b := range x {
			t, ok := b.(*Term)
			if !ok || !t.IsConst() {
				sb.Reset()
				sb.WriteString("sym")
				break
			}
			fmt.Fprintf(&sb, "%02x", t.val&0xff)
		}
		s = sb.String()
	case nil:
		s = "nil"
	default:
		s = fmt.Sprintf("%T", v)
	}
	e.path.observes = append(e.path.observes, ObsRec{Tag: tag + "=" + s})
}
