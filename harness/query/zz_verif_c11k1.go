//go:build verif_harness

package query

// C11-K1: merging the per-series / per-shard iterators of a tag set loses and duplicates nothing,
// whatever the number of inputs and the parallelism (NewMergeIterator, NewParallelMergeIterator
// and the goroutine-backed parallel iterators): every input point comes out exactly once, and
// points of one series keep their time order.

func init() {
	vRegister("VerifHarness_C11_MergeKeepsEveryPoint", VerifHarness_C11_MergeKeepsEveryPoint)
}

type vC11SliceIter struct {
	pts    []IntegerPoint
	pos    int
	closed bool
}

func (it *vC11SliceIter) Stats() IteratorStats { return IteratorStats{} }
func (it *vC11SliceIter) Close() error         { it.closed = true; return nil }
func (it *vC11SliceIter) Next() (*IntegerPoint, error) {
	if it.pos >= len(it.pts) {
		return nil, nil
	}
	p := &it.pts[it.pos]
	it.pos++
	return p, nil
}

func VerifHarness_C11_MergeKeepsEveryPoint() {
	maxIn := 5
	if vThorough() {
		maxIn = 7
	}
	nIn := vLen("inputs", 1, maxIn)
	parallelism := vLen("parallelism", 0, 4) // 0: the plain merge iterator
	asc := vBool("ascending")
	// every input is one series (distinct tag) of the same measurement with 1..2 points in the
	// query's time order; values identify the point
	var inputs []Iterator
	var its []*vC11SliceIter
	total := 0
	id := int64(0)
	for i := 0; i < nIn; i++ {
		n := vLen("pointsInSeries", 1, 2)
		tags := NewTags(map[string]string{"host": string(rune('a' + i))})
		it := &vC11SliceIter{}
		var prev int64
		for k := 0; k < n; k++ {
			t := vInt64("t")
			if k > 0 {
				if asc {
					vAssume(t > prev)
				} else {
					vAssume(t < prev)
				}
			}
			prev = t
			id++
			it.pts = append(it.pts, IntegerPoint{Name: "cpu", Tags: tags, Time: t, Value: id})
			total++
		}
		its = append(its, it)
		inputs = append(inputs, it)
	}
	opt := IteratorOptions{Ascending: asc, Dimensions: []string{"host"}}
	var merged Iterator
	if parallelism == 0 {
		merged = NewMergeIterator(inputs, opt)
	} else {
		merged = NewParallelMergeIterator(inputs, opt, parallelism)
	}
	vAssert(merged != nil, "C11.merge-yields-an-iterator")
	if merged == nil {
		return
	}
	mi := merged.(IntegerIterator)
	seen := make([]int, total+1)
	lastTime := map[string]int64{}
	have := map[string]bool{}
	count := 0
	for {
		p, err := mi.Next()
		vAssert(err == nil, "C11.merge-no-error")
		if p == nil || err != nil {
			break
		}
		count++
		if count > total+2 {
			break
		}
		if p.Value >= 1 && p.Value <= int64(total) {
			seen[p.Value]++
		} else {
			vFail("C11.merge-invents-nothing")
		}
		key := p.Tags.ID()
		if have[key] {
			if asc {
				vAssert(lastTime[key] < p.Time, "C11.merge-keeps-series-time-order")
			} else {
				vAssert(lastTime[key] > p.Time, "C11.merge-keeps-series-time-order")
			}
		}
		have[key] = true
		lastTime[key] = p.Time
	}
	for v := 1; v <= total; v++ {
		vAssert(seen[v] == 1, "C11.merge-returns-every-input-point-exactly-once")
	}
	vAssert(count == total, "C11.merge-returns-every-input-point-exactly-once")
	merged.Close()
	for _, it := range its {
		vAssert(it.closed, "C11.merge-closes-its-inputs")
	}
	vObserve("count", count)
	vReach("C11.merge.end")
}

// engine-side stand-in for newParallelIterator: prefetching does not change what is read
func vC11SequentialIterator(input Iterator) Iterator { return input }
