package main

import (
	"fmt"
	"go/constant"
	"go/token"
	"go/types"
	"math"
	"unicode/utf8"

	"golang.org/x/tools/go/ssa"
)

func constantStringVal(c *ssa.Const) string {
	if c.Value.Kind() == constant.String {
		return constant.StringVal(c.Value)
	}
	// string(int constant)
	if i, ok := constant.Int64Val(c.Value); ok {
		return string(rune(i))
	}
	return c.Value.String()
}

func constantBool(c *ssa.Const) bool { return constant.BoolVal(c.Value) }

func (e *Engine) asTerm(v Value, what string) *Term {
	t, ok := v.(*Term)
	if !ok {
		e.isNilPanicCheck(v)
		panic(e.unsupported(fmt.Sprintf("%s: expected scalar, got %T", what, v)))
	}
	return t
}

// indexCheck implements the bounds check for an index of Go type it against length n and
// returns a concrete index (forking over feasible values when symbolic).
func (e *Engine) indexCheck(idx *Term, it types.Type, n int) int {
	_, signed, _, _ := basicInfo(it)
	i64 := e.tt.Resize(idx, 64, signed)
	if i64.IsConst() {
		v := i64.S()
		if signed && v < 0 || i64.val >= uint64(n) {
			panic(e.targetPanicStr(fmt.Sprintf("runtime error: index out of range [%d] with length %d", v, n)))
		}
		return int(v)
	}
	inb := e.tt.Ult(i64, e.tt.Const(64, uint64(n)))
	if !e.Decide(inb) {
		panic(e.targetPanicStr(fmt.Sprintf("runtime error: index out of range [symbolic] with length %d", n)))
	}
	return int(e.Concretize(i64, "index"))
}

// concretizeSize: a make/slice size. Negative or huge → Go panics.
func (e *Engine) concretizeSize(t *Term, what string) int {
	t64 := e.tt.Resize(t, 64, true)
	if t64.IsConst() {
		if t64.S() < 0 {
			panic(e.targetPanicStr("runtime error: makeslice: len out of range"))
		}
		return int(t64.S())
	}
	if e.Decide(e.tt.Slt(t64, e.tt.Const(64, 0))) {
		panic(e.targetPanicStr("runtime error: makeslice: len out of range (negative symbolic size)"))
	}
	lim := uint64(e.cfg.MaxAlloc)
	if !e.Decide(e.tt.Ule(t64, e.tt.Const(64, lim))) {
		panic(boundErr{fmt.Sprintf("symbolic %s may exceed alloc bound %d%s", what, lim, e.where())})
	}
	return int(e.Concretize(t64, what))
}

// bigMake handles make([]T, n) whose size may exceed the engine's allocation bound when the check
// enables clamp_alloc: the slice gets MaxAlloc+1 cells and its true (symbolic or huge) length is
// kept in a side table consulted by len() and by slicing with an open upper bound. Sound as long
// as the harness never touches cells beyond MaxAlloc (which would be a bound error).
func (e *Engine) bigMake(lt, ct *Term, instr *ssa.MakeSlice) Value {
	if !e.cfg.ClampAlloc || lt != ct {
		return nil
	}
	t64 := e.tt.Resize(lt, 64, true)
	lim := e.tt.Const(64, uint64(e.cfg.MaxAlloc))
	if t64.IsConst() {
		if t64.S() < 0 || t64.S() <= int64(e.cfg.MaxAlloc) {
			return nil
		}
	} else {
		if e.Decide(e.tt.Slt(t64, e.tt.Const(64, 0))) {
			panic(e.targetPanicStr("runtime error: makeslice: len out of range (negative symbolic size)"))
		}
		if e.Decide(e.tt.Sle(t64, lim)) {
			return nil
		}
	}
	tElt := instr.Type().Underlying().(*types.Slice).Elem()
	esz := types.SizesFor("gc", "amd64").Sizeof(tElt)
	if esz < 1 {
		esz = 1
	}
	maxLen := e.tt.Const(64, uint64((int64(1)<<48)/esz))
	if e.Decide(e.tt.Slt(maxLen, t64)) {
		panic(e.targetPanicStr("runtime error: makeslice: len out of range"))
	}
	n := e.cfg.MaxAlloc + 1
	sl := make([]Value, n)
	z := e.zero(tElt)
	for i := range sl {
		sl[i] = copyVal(z)
	}
	if e.path.bigLen == nil {
		e.path.bigLen = map[*Value]*Term{}
	}
	e.path.bigLen[&sl[0]] = t64
	return sl
}

// SymElemPtr is &x[i] with a symbolic in-range index whose only uses are loads: the load becomes
// an ite over the cells (scalars) or a fork per group of identical cells (tables of slices,
// strings, ...), instead of one path per feasible index.
type SymElemPtr struct {
	cells []Value
	idx   *Term // 64-bit, proven in range on this path
}

func onlyLoaded(instr *ssa.IndexAddr) bool {
	refs := instr.Referrers()
	if refs == nil || len(*refs) == 0 {
		return false
	}
	for _, r := range *refs {
		u, ok := r.(*ssa.UnOp)
		if !ok || u.Op != token.MUL {
			if _, isDbg := r.(*ssa.DebugRef); isDbg {
				continue
			}
			return false
		}
	}
	return true
}

func (e *Engine) symElemPtr(cells []Value, idx *Term, it types.Type) Value {
	_, signed, _, _ := basicInfo(it)
	i64 := e.tt.Resize(idx, 64, signed)
	inb := e.tt.Ult(i64, e.tt.Const(64, uint64(len(cells))))
	if !e.Decide(inb) {
		panic(e.targetPanicStr(fmt.Sprintf("runtime error: index out of range [symbolic] with length %d", len(cells))))
	}
	return SymElemPtr{cells: cells, idx: i64}
}

// symLoad reads cells[idx] for a symbolic in-range idx.
func (e *Engine) symLoad(p SymElemPtr) Value {
	n := len(p.cells)
	allTerms := true
	for _, c := range p.cells {
		if _, ok := c.(*Term); !ok {
			allTerms = false
			break
		}
	}
	if allTerms {
		// group equal terms; the most frequent value becomes the default arm
		groups := map[*Term][]int{}
		var order []*Term
		for i, c := range p.cells {
			t := c.(*Term)
			if _, ok := groups[t]; !ok {
				order = append(order, t)
			}
			groups[t] = append(groups[t], i)
		}
		def := order[0]
		for _, t := range order {
			if len(groups[t]) > len(groups[def]) {
				def = t
			}
		}
		res := def
		for _, t := range order {
			if t == def {
				continue
			}
			cond := e.tt.False
			for _, i := range groups[t] {
				cond = e.tt.Or(cond, e.tt.Eq(p.idx, e.tt.Const(64, uint64(i))))
			}
			res = e.tt.Ite(cond, t, res)
		}
		return res
	}
	// non-scalar cells: fork per group of identical cells
	type grp struct {
		rep  int
		idxs []int
	}
	var groups []*grp
	keyOf := func(v Value) string {
		switch x := v.(type) {
		case []Value:
			if x == nil {
				return "nilslice"
			}
			if len(x) == 0 {
				return "emptyslice"
			}
			return fmt.Sprintf("slice:%p:%d", &x[0], len(x))
		case *Value:
			return fmt.Sprintf("ptr:%p", x)
		case Str:
			if x.Concrete() {
				return "str:" + x.S
			}
		case *Closure:
			return fmt.Sprintf("clo:%p", x)
		case *ssa.Function:
			return fmt.Sprintf("fn:%p", x)
		}
		return ""
	}
	byKey := map[string]*grp{}
	for i, c := range p.cells {
		k := keyOf(c)
		if k == "" {
			groups = append(groups, &grp{rep: i, idxs: []int{i}})
			continue
		}
		if g, ok := byKey[k]; ok {
			g.idxs = append(g.idxs, i)
		} else {
			g := &grp{rep: i, idxs: []int{i}}
			byKey[k] = g
			groups = append(groups, g)
		}
	}
	if len(groups) > e.cfg.Limits.MaxConcretize {
		panic(boundErr{fmt.Sprintf("symbolic index over %d distinct non-scalar cells%s", len(groups), e.where())})
	}
	for gi, g := range groups {
		if gi == len(groups)-1 {
			return copyVal(p.cells[g.rep])
		}
		cond := e.tt.False
		for _, i := range g.idxs {
			cond = e.tt.Or(cond, e.tt.Eq(p.idx, e.tt.Const(64, uint64(i))))
		}
		if e.Decide(cond) {
			return copyVal(p.cells[g.rep])
		}
	}
	_ = n
	panic("unreachable")
}

func (e *Engine) bigLenOf(x []Value) *Term {
	if e.path == nil || e.path.bigLen == nil || len(x) == 0 {
		return nil
	}
	return e.path.bigLen[&x[0]]
}

func (e *Engine) sliceBound(t Value, def int, max int, what string) int {
	if t == nil {
		return def
	}
	tt := e.tt.Resize(t.(*Term), 64, true)
	if tt.IsConst() {
		v := tt.S()
		if v < 0 || v > int64(max) {
			panic(e.targetPanicStr(fmt.Sprintf("runtime error: slice bounds out of range [%s %d] with capacity %d", what, v, max)))
		}
		return int(v)
	}
	if !e.Decide(e.tt.Ule(tt, e.tt.Const(64, uint64(max)))) {
		panic(e.targetPanicStr(fmt.Sprintf("runtime error: slice bounds out of range [%s symbolic] with capacity %d", what, max)))
	}
	return int(e.Concretize(tt, "slice bound"))
}

func (e *Engine) sliceOp(instr *ssa.Slice, x, lo, hi, max Value) Value {
	// widen the bounds to 64 bits according to their own Go types (a uint32 bound >= 2^31 must
	// not be sign-extended)
	norm := func(v Value, sv ssa.Value) Value {
		if v == nil {
			return nil
		}
		_, signed, _, _ := basicInfo(sv.Type())
		return e.tt.Resize(v.(*Term), 64, signed)
	}
	lo, hi, max = norm(lo, instr.Low), norm(hi, instr.High), norm(max, instr.Max)
	switch x := x.(type) {
	case Str:
		n := x.Len()
		h := e.sliceBound(hi, n, n, "hi")
		l := e.sliceBound(lo, 0, h, "lo")
		return e.strSlice(x, l, h)
	case []Value:
		if bl := e.bigLenOf(x); bl != nil {
			// clamped slice: only x[l:] with concrete small l and x[:h] with small h are supported
			if max != nil {
				panic(boundErr{"3-index slice of a clamped (over-bound) slice" + e.where()})
			}
			l := 0
			if lo != nil {
				l = e.sliceBound(lo, 0, len(x)-1, "lo")
			}
			if hi == nil {
				r := x[l:]
				e.path.bigLen[&r[0]] = e.tt.Bin(OpSub, bl, e.tt.Const(64, uint64(l)))
				return r
			}
			ht := e.tt.Resize(hi.(*Term), 64, true)
			if !e.Decide(e.tt.Ule(ht, bl)) {
				panic(e.targetPanicStr("runtime error: slice bounds out of range (clamped slice)"))
			}
			if !e.Decide(e.tt.Ule(ht, e.tt.Const(64, uint64(e.cfg.MaxAlloc)))) {
				// still longer than the engine can hold: the result stays a clamped slice
				r := x[l:]
				e.path.bigLen[&r[0]] = e.tt.Bin(OpSub, ht, e.tt.Const(64, uint64(l)))
				return r
			}
			h := int(e.Concretize(ht, "slice bound"))
			if l > h {
				panic(e.targetPanicStr("runtime error: slice bounds out of range"))
			}
			return x[l:h:h]
		}
		c := cap(x)
		m := e.sliceBound(max, c, c, "max")
		h := e.sliceBound(hi, len(x), m, "hi")
		l := e.sliceBound(lo, 0, h, "lo")
		if x == nil {
			return []Value(nil)
		}
		return x[l:h:m]
	case *Value:
		if x == nil {
			panic(e.targetPanicStr("runtime error: invalid memory address or nil pointer dereference"))
		}
		a := []Value((*x).(Array))
		c := len(a)
		m := e.sliceBound(max, c, c, "max")
		h := e.sliceBound(hi, c, m, "hi")
		l := e.sliceBound(lo, 0, h, "lo")
		return a[l:h:m]
	}
	e.isNilPanicCheck(x)
	panic(e.unsupported(fmt.Sprintf("slice of %T", x)))
}

func (e *Engine) unop(instr *ssa.UnOp, x Value) Value {
	switch instr.Op {
	case token.MUL: // load
		if sp, isSym := x.(SymElemPtr); isSym {
			return e.symLoad(sp)
		}
		p, ok := x.(*Value)
		if !ok {
			e.isNilPanicCheck(x)
			panic(e.unsupported(fmt.Sprintf("load through %T", x)))
		}
		v := e.load(p)
		if pz, ok := v.(Poison); ok && e.inInit == 0 {
			panic(e.unsupported("load of poisoned value: " + pz.why))
		}
		// unsafe reinterpretation *[]byte <-> *string (zero-copy string/bytes conversions)
		if sl, ok := v.([]Value); ok {
			if b, isB := instr.Type().Underlying().(*types.Basic); isB && b.Info()&types.IsString != 0 {
				ts := make([]*Term, len(sl))
				for i, x := range sl {
					ts[i] = x.(*Term)
				}
				return mkStrFromTerms(ts)
			}
		} else if s, ok := v.(Str); ok {
			if _, isS := instr.Type().Underlying().(*types.Slice); isS {
				bs := e.strBytes(s)
				out := make([]Value, len(bs))
				for i, b := range bs {
					out[i] = b
				}
				return out
			}
		}
		return v
	case token.ARROW:
		return e.chanRecv(x.(*Chan), instr.CommaOk)
	case token.NOT:
		return e.tt.Not(e.asTerm(x, "not"))
	case token.SUB:
		t := e.asTerm(x, "neg")
		if _, _, isF, _ := basicInfo(instr.X.Type()); isF {
			if !t.IsConst() {
				panic(e.unsupported("negation of symbolic float"))
			}
			return e.constFloat(t.w, -floatOf(t))
		}
		return e.tt.Neg(t)
	case token.XOR:
		return e.tt.BNot(e.asTerm(x, "compl"))
	}
	panic(e.unsupported("unop " + instr.Op.String()))
}

func (e *Engine) isNil(v Value) (bool, bool) {
	switch v := v.(type) {
	case nil:
		return true, true
	case *Value:
		return v == nil, true
	case []Value:
		return v == nil, true
	case *Map:
		return v == nil, true
	case *Chan:
		return v == nil, true
	case *Closure:
		return v == nil, true
	case *ssa.Function:
		return v == nil, true
	case Iface:
		return v.T == nil, true
	}
	return false, false
}

// equals returns x == y as a Bool term.
func (e *Engine) equals(x, y Value) *Term {
	switch x := x.(type) {
	case *Term:
		yt, ok := y.(*Term)
		if !ok {
			return e.tt.False
		}
		if x.w != yt.w {
			return e.tt.False
		}
		return e.tt.Eq(x, yt)
	case Str:
		ys, ok := y.(Str)
		if !ok {
			return e.tt.False
		}
		return e.strEq(x, ys)
	case *Value:
		yp, ok := y.(*Value)
		if !ok {
			n, _ := e.isNil(y)
			return e.tt.Bool(x == nil && n)
		}
		return e.tt.Bool(x == yp)
	case Struct:
		ys := y.(Struct)
		r := e.tt.True
		for i := range x {
			r = e.tt.And(r, e.equals(x[i], ys[i]))
		}
		return r
	case Array:
		ys := y.(Array)
		r := e.tt.True
		for i := range x {
			r = e.tt.And(r, e.equals(x[i], ys[i]))
		}
		return r
	case Iface:
		yi, ok := y.(Iface)
		if !ok {
			n, _ := e.isNil(y)
			return e.tt.Bool(x.T == nil && n)
		}
		if x.T == nil || yi.T == nil {
			return e.tt.Bool(x.T == nil && yi.T == nil)
		}
		if !types.Identical(x.T, yi.T) {
			return e.tt.False
		}
		return e.equals(x.V, yi.V)
	case *Map:
		ym, _ := y.(*Map)
		return e.tt.Bool(x == ym)
	case *Chan:
		yc, _ := y.(*Chan)
		return e.tt.Bool(x == yc)
	case []Value:
		yn, _ := e.isNil(y)
		if x == nil {
			return e.tt.Bool(yn)
		}
		if yn {
			return e.tt.False
		}
		panic(e.unsupported("comparison of non-nil slices"))
	case *Closure, *ssa.Function:
		xn, _ := e.isNil(x)
		yn, _ := e.isNil(y)
		if xn || yn {
			return e.tt.Bool(xn && yn)
		}
		panic(e.unsupported("comparison of non-nil funcs"))
	case nil:
		yn, ok := e.isNil(y)
		if ok {
			return e.tt.Bool(yn)
		}
	case Poison:
		panic(e.unsupported("comparison of poisoned value: " + x.why))
	}
	panic(e.unsupported(fmt.Sprintf("equals on %T / %T", x, y)))
}

func (e *Engine) binop(op token.Token, t types.Type, x, y Value) Value {
	if px, ok := x.(Poison); ok {
		panic(e.unsupported("binop on poisoned value: " + px.why))
	}
	if py, ok := y.(Poison); ok {
		panic(e.unsupported("binop on poisoned value: " + py.why))
	}
	if op == token.EQL || op == token.NEQ {
		var r *Term
		if _, _, isF, ok := basicInfo(t); ok && isF {
			a, b := e.asTerm(x, "feq"), e.asTerm(y, "feq")
			if !a.IsConst() || !b.IsConst() {
				panic(e.unsupported("==/!= on symbolic float"))
			}
			r = e.tt.Bool(floatOf(a) == floatOf(b))
		} else {
			r = e.equals(x, y)
		}
		if op == token.NEQ {
			return e.tt.Not(r)
		}
		return r
	}
	if xs, ok := x.(Str); ok {
		ys := y.(Str)
		switch op {
		case token.ADD:
			return e.strConcat(xs, ys)
		case token.LSS:
			return e.strLess(xs, ys)
		case token.GTR:
			return e.strLess(ys, xs)
		case token.LEQ:
			return e.tt.Not(e.strLess(ys, xs))
		case token.GEQ:
			return e.tt.Not(e.strLess(xs, ys))
		}
		panic(e.unsupported("string binop " + op.String()))
	}
	a, b := e.asTerm(x, "binop"), e.asTerm(y, "binop")
	w, signed, isF, ok := basicInfo(t)
	if !ok {
		panic(e.unsupported(fmt.Sprintf("binop on type %v", t)))
	}
	if isF {
		return e.floatBinop(op, w, a, b)
	}
	if w == 0 { // bool
		switch op {
		case token.AND, token.LAND:
			return e.tt.And(a, b)
		case token.OR, token.LOR:
			return e.tt.Or(a, b)
		}
		panic(e.unsupported("bool binop " + op.String()))
	}
	switch op {
	case token.ADD:
		return e.tt.Bin(OpAdd, a, b)
	case token.SUB:
		return e.tt.Bin(OpSub, a, b)
	case token.MUL:
		return e.tt.Bin(OpMul, a, b)
	case token.QUO, token.REM:
		if b.IsConst() {
			if b.val == 0 {
				panic(e.targetPanicStr("runtime error: integer divide by zero"))
			}
		} else if e.Decide(e.tt.Eq(b, e.tt.Const(w, 0))) {
			panic(e.targetPanicStr("runtime error: integer divide by zero"))
		}
		if op == token.QUO {
			if signed {
				return e.tt.Bin(OpSDiv, a, b)
			}
			return e.tt.Bin(OpUDiv, a, b)
		}
		if signed {
			return e.tt.Bin(OpSRem, a, b)
		}
		return e.tt.Bin(OpURem, a, b)
	case token.AND:
		return e.tt.Bin(OpBAnd, a, b)
	case token.OR:
		return e.tt.Bin(OpBOr, a, b)
	case token.XOR:
		return e.tt.Bin(OpBXor, a, b)
	case token.AND_NOT:
		return e.tt.Bin(OpBAnd, a, e.tt.BNot(b))
	case token.SHL, token.SHR:
		// shift count y has its own type (b.w); Go: count >= width gives 0 / sign fill;
		// negative signed count panics (checked by SSA-inserted code? no: runtime panic)
		cnt := b
		if cnt.w != w {
			// counts are unsigned after the negative check; saturate
			if cnt.w > w {
				big := e.tt.Not(e.tt.Ult(cnt, e.tt.Const(cnt.w, uint64(w))))
				cnt = e.tt.Ite(big, e.tt.Const(w, uint64(w)), e.tt.Extract(cnt, w-1, 0))
			} else {
				cnt = e.tt.ZExt(cnt, w)
			}
		}
		if op == token.SHL {
			return e.tt.Bin(OpShl, a, cnt)
		}
		if signed {
			return e.tt.Bin(OpAShr, a, cnt)
		}
		return e.tt.Bin(OpLShr, a, cnt)
	case token.LSS:
		if signed {
			return e.tt.Slt(a, b)
		}
		return e.tt.Ult(a, b)
	case token.LEQ:
		if signed {
			return e.tt.Sle(a, b)
		}
		return e.tt.Ule(a, b)
	case token.GTR:
		if signed {
			return e.tt.Slt(b, a)
		}
		return e.tt.Ult(b, a)
	case token.GEQ:
		if signed {
			return e.tt.Sle(b, a)
		}
		return e.tt.Ule(b, a)
	}
	panic(e.unsupported("binop " + op.String()))
}

func (e *Engine) floatBinop(op token.Token, w uint8, a, b *Term) Value {
	if !a.IsConst() || !b.IsConst() {
		// only bit-pattern-free reasoning is available: unsupported
		panic(e.unsupported("arithmetic/comparison on symbolic float (" + op.String() + ")"))
	}
	x, y := floatOf(a), floatOf(b)
	switch op {
	case token.ADD:
		return e.constFloat(w, x+y)
	case token.SUB:
		return e.constFloat(w, x-y)
	case token.MUL:
		return e.constFloat(w, x*y)
	case token.QUO:
		return e.constFloat(w, x/y)
	case token.LSS:
		return e.tt.Bool(x < y)
	case token.LEQ:
		return e.tt.Bool(x <= y)
	case token.GTR:
		return e.tt.Bool(x > y)
	case token.GEQ:
		return e.tt.Bool(x >= y)
	}
	panic(e.unsupported("float binop " + op.String()))
}

// equalsTyped handles == on floats (IEEE) vs everything else: called from binop EQL through
// equals; floats with constant operands compare numerically.
func (e *Engine) conv(dst, src types.Type, x Value) Value {
	if p, ok := x.(Poison); ok {
		panic(e.unsupported("conversion of poisoned value: " + p.why))
	}
	ud, us := dst.Underlying(), src.Underlying()
	switch us := us.(type) {
	case *types.Pointer:
		if ub, ok := ud.(*types.Basic); ok && ub.Kind() == types.UnsafePointer {
			return x
		}
		return x
	case *types.Slice:
		// []byte / []rune -> string
		if db, ok := ud.(*types.Basic); ok && db.Info()&types.IsString != 0 {
			eb := us.Elem().Underlying().(*types.Basic)
			sl := x.([]Value)
			if eb.Kind() == types.Uint8 {
				ts := make([]*Term, len(sl))
				for i, v := range sl {
					ts[i] = v.(*Term)
				}
				return mkStrFromTerms(ts)
			}
			// runes: concrete only
			rs := make([]rune, len(sl))
			for i, v := range sl {
				t := v.(*Term)
				if !t.IsConst() {
					panic(e.unsupported("string([]rune) with symbolic runes"))
				}
				rs[i] = rune(t.S())
			}
			return Str{S: string(rs)}
		}
		return x
	case *types.Basic:
		if us.Kind() == types.UnsafePointer {
			return x
		}
		if us.Info()&types.IsString != 0 {
			s := x.(Str)
			switch d := ud.(type) {
			case *types.Basic:
				return x
			case *types.Slice:
				eb := d.Elem().Underlying().(*types.Basic)
				if eb.Kind() == types.Uint8 {
					bs := e.strBytes(s)
					out := make([]Value, len(bs))
					for i, b := range bs {
						out[i] = b
					}
					return out
				}
				if !s.Concrete() {
					panic(e.unsupported("[]rune(symbolic string)"))
				}
				rs := []rune(s.S)
				out := make([]Value, len(rs))
				for i, r := range rs {
					out[i] = e.tt.Const(32, uint64(r))
				}
				return out
			}
			panic(e.unsupported(fmt.Sprintf("conv string -> %v", dst)))
		}
		t := e.asTerm(x, "conv")
		sw, ssigned, sF, _ := basicInfo(us)
		db, ok := ud.(*types.Basic)
		if !ok {
			panic(e.unsupported(fmt.Sprintf("conv %v -> %v", src, dst)))
		}
		if db.Kind() == types.UnsafePointer {
			return x
		}
		if db.Info()&types.IsString != 0 {
			// string(rune)
			if !t.IsConst() {
				// byte-range rune -> 1 or 2 byte string: only ASCII supported symbolically
				panic(e.unsupported("string(symbolic rune)"))
			}
			return Str{S: string(rune(t.S()))}
		}
		dw, dsigned, dF, ok := basicInfo(db)
		if !ok {
			panic(e.unsupported(fmt.Sprintf("conv %v -> %v", src, dst)))
		}
		_ = sw
		switch {
		case sF && dF:
			if !t.IsConst() {
				if t.w == dw {
					return t
				}
				panic(e.unsupported("float width conversion of symbolic float"))
			}
			return e.constFloat(dw, floatOf(t))
		case sF && !dF:
			if !t.IsConst() {
				panic(e.unsupported("float->int conversion of symbolic float"))
			}
			f := floatOf(t)
			if dsigned {
				return e.tt.Const(dw, uint64(int64(f)))
			}
			return e.tt.Const(dw, uint64(f))
		case !sF && dF:
			if !t.IsConst() {
				panic(e.unsupported("int->float conversion of symbolic int"))
			}
			if ssigned {
				return e.constFloat(dw, float64(t.S()))
			}
			return e.constFloat(dw, float64(t.U()))
		default:
			if dw == 0 || t.w == 0 {
				return t
			}
			return e.tt.Resize(t, dw, ssigned)
		}
	}
	return x
}

// ---- maps

func (e *Engine) keyEq(a, b Value) *Term { return e.equals(a, b) }

func (e *Engine) mapFind(m *Map, k Value) *MapEnt {
	if m == nil {
		return nil
	}
	for _, ent := range m.ents {
		c := e.keyEq(ent.K, k)
		if c.IsFalse() {
			continue
		}
		if e.Decide(c) {
			return ent
		}
	}
	return nil
}

func (e *Engine) lookup(instr *ssa.Lookup, x, k Value) Value {
	switch x := x.(type) {
	case Str:
		i := e.indexCheck(k.(*Term), instr.Index.Type(), x.Len())
		return e.strByte(x, i)
	case *Map:
		var vt types.Type
		if x != nil {
			vt = x.VT
		} else {
			vt = instr.X.Type().Underlying().(*types.Map).Elem()
		}
		ent := e.mapFind(x, k)
		var v Value
		if ent != nil {
			v = copyVal(ent.V)
		} else {
			v = e.zero(vt)
		}
		if instr.CommaOk {
			return Tuple{v, e.tt.Bool(ent != nil)}
		}
		return v
	}
	e.isNilPanicCheck(x)
	panic(e.unsupported(fmt.Sprintf("lookup on %T", x)))
}

func (e *Engine) mapUpdate(m *Map, k, v Value) {
	if ent := e.mapFind(m, k); ent != nil {
		old := ent.V
		e.logUndo(func() { ent.V = old })
		ent.V = copyVal(v)
		return
	}
	n := len(m.ents)
	e.logUndo(func() { m.ents = m.ents[:n] })
	m.ents = append(m.ents[:n:n], &MapEnt{K: copyVal(k), V: copyVal(v)})
}

func (e *Engine) mapDelete(m *Map, k Value) {
	if m == nil {
		return
	}
	ent := e.mapFind(m, k)
	if ent == nil {
		return
	}
	old := m.ents
	e.logUndo(func() { m.ents = old })
	ne := make([]*MapEnt, 0, len(old))
	for _, x := range old {
		if x != ent {
			ne = append(ne, x)
		}
	}
	m.ents = ne
}

func (e *Engine) rangeIter(x Value) Value {
	switch x := x.(type) {
	case *Map:
		it := &mapIter{m: x, any: e.cfg.MapOrderAny}
		if x != nil {
			it.ents = append(it.ents, x.ents...)
		}
		return it
	case Str:
		if !x.Concrete() {
			panic(e.unsupported("range over symbolic string"))
		}
		return &strIter{s: x.S}
	}
	panic(e.unsupported(fmt.Sprintf("range over %T", x)))
}

func (e *Engine) iterNext(it Value, instr *ssa.Next) Value {
	switch it := it.(type) {
	case *mapIter:
		// skip entries deleted since the iterator was created
		for {
			if len(it.ents) == 0 {
				tup := instr.Type().(*types.Tuple)
				return Tuple{e.tt.False, e.zeroOrNil(tup.At(1).Type()), e.zeroOrNil(tup.At(2).Type())}
			}
			i := 0
			if it.any {
				i = e.Choose(len(it.ents))
			}
			ent := it.ents[i]
			it.ents = append(append([]*MapEnt{}, it.ents[:i]...), it.ents[i+1:]...)
			live := false
			for _, x := range it.m.ents {
				if x == ent {
					live = true
					break
				}
			}
			if !live {
				continue
			}
			return Tuple{e.tt.True, copyVal(ent.K), copyVal(ent.V)}
		}
	case *strIter:
		if it.pos >= len(it.s) {
			return Tuple{e.tt.False, e.tt.Const(64, 0), e.tt.Const(32, 0)}
		}
		r, sz := utf8.DecodeRuneInString(it.s[it.pos:])
		p := it.pos
		it.pos += sz
		return Tuple{e.tt.True, e.tt.Const(64, uint64(p)), e.tt.Const(32, uint64(r))}
	}
	panic(e.unsupported(fmt.Sprintf("next on %T", it)))
}

func (e *Engine) zeroOrNil(t types.Type) Value {
	if t == nil {
		return nil
	}
	if b, ok := t.(*types.Basic); ok && b.Kind() == types.Invalid {
		return nil
	}
	return e.zero(t)
}

// ---- type assertions

func (e *Engine) implements(t types.Type, it *types.Interface) bool {
	k := implKey{t, it}
	if v, ok := e.implCache[k]; ok {
		return v
	}
	v := types.Implements(t, it)
	if e.implCache == nil {
		e.implCache = map[implKey]bool{}
	}
	e.implCache[k] = v
	return v
}

func (e *Engine) typeAssert(instr *ssa.TypeAssert, x Value) Value {
	itf, ok := x.(Iface)
	if !ok {
		e.isNilPanicCheck(x)
		panic(e.unsupported(fmt.Sprintf("type assert on %T", x)))
	}
	var v Value
	okk := false
	if idst, isI := instr.AssertedType.Underlying().(*types.Interface); isI {
		if itf.T != nil && e.implements(itf.T, idst) {
			v = itf
			okk = true
		}
	} else if itf.T != nil && types.Identical(itf.T, instr.AssertedType) {
		v = itf.V
		okk = true
	}
	if instr.CommaOk {
		if !okk {
			v = e.zero(instr.AssertedType)
		}
		return Tuple{v, e.tt.Bool(okk)}
	}
	if !okk {
		ts := "nil"
		if itf.T != nil {
			ts = itf.T.String()
		}
		panic(e.targetPanicStr(fmt.Sprintf("interface conversion: interface is %s, not %s", ts, instr.AssertedType)))
	}
	return v
}

// ---- channels

func (e *Engine) chanSend(c *Chan, v Value) {
	if c == nil {
		panic(e.unsupported("send on nil channel (blocks forever)"))
	}
	if c.closed {
		panic(e.targetPanicStr("send on closed channel"))
	}
	if len(c.buf) >= c.cap && !e.cfg.UnboundedChans {
		panic(e.unsupported("send would block (channel full / unbuffered)"))
	}
	n := len(c.buf)
	oldAny := c.anyOrder
	e.logUndo(func() { c.buf = c.buf[:n]; c.anyOrder = oldAny })
	c.buf = append(c.buf[:n:n], copyVal(v))
	if e.path.goDepth > 0 && !e.cfg.FifoChans {
		c.anyOrder = true
	}
}

func (e *Engine) chanTake(c *Chan) Value {
	i := 0
	if c.anyOrder && len(c.buf) > 1 {
		i = e.Choose(len(c.buf))
	}
	old := c.buf
	e.logUndo(func() { c.buf = old })
	v := old[i]
	nb := make([]Value, 0, len(old)-1)
	nb = append(nb, old[:i]...)
	nb = append(nb, old[i+1:]...)
	c.buf = nb
	return v
}

func (e *Engine) chanRecv(c *Chan, commaOk bool) Value {
	if c == nil {
		panic(e.unsupported("receive on nil channel (blocks forever)"))
	}
	var v Value
	ok := true
	switch {
	case len(c.buf) > 0:
		v = e.chanTake(c)
	case c.closed:
		v = e.zero(c.ET)
		ok = false
	case c.timer:
		v = e.zero(c.ET) // timer fires (time value abstracted)
	default:
		panic(e.unsupported("receive would block (empty channel, run-to-completion task model)"))
	}
	if commaOk {
		return Tuple{v, e.tt.Bool(ok)}
	}
	return v
}

func (e *Engine) selectOp(fr *frame, instr *ssa.Select) Value {
	type cand struct {
		idx   int
		timer bool
	}
	var cands []cand
	for i, st := range instr.States {
		c, _ := fr.get(st.Chan).(*Chan)
		if c == nil {
			continue
		}
		if st.Dir == types.RecvOnly {
			if len(c.buf) > 0 || c.closed {
				cands = append(cands, cand{i, false})
			} else if c.timer {
				cands = append(cands, cand{i, true})
			}
		} else {
			if c.closed {
				panic(e.targetPanicStr("send on closed channel"))
			}
			if len(c.buf) < c.cap || e.cfg.UnboundedChans {
				cands = append(cands, cand{i, false})
			}
		}
	}
	n := len(cands)
	definite := 0
	for _, c := range cands {
		if !c.timer {
			definite++
		}
	}
	if !instr.Blocking && definite == 0 {
		n++ // default is taken only when no case is certainly ready
	}
	if n == 0 {
		panic(e.unsupported("select would block forever (no ready case)"))
	}
	pick := e.Choose(n)
	chosen := -1
	if pick < len(cands) {
		chosen = cands[pick].idx
	}
	r := Tuple{e.tt.Const(64, uint64(int64(chosen))), e.tt.False}
	for i, st := range instr.States {
		if st.Dir == types.RecvOnly {
			et := st.Chan.Type().Underlying().(*types.Chan).Elem()
			var v Value
			if i == chosen {
				c := fr.get(st.Chan).(*Chan)
				rv := e.chanRecv(c, true).(Tuple)
				v = rv[0]
				r[1] = rv[1]
			} else {
				v = e.zero(et)
			}
			r = append(r, v)
		} else if i == chosen {
			e.chanSend(fr.get(st.Chan).(*Chan), fr.get(st.Send))
		}
	}
	return r
}

// ---- builtins

func (e *Engine) callBuiltin(caller *frame, fn *ssa.Builtin, args []Value) Value {
	switch fn.Name() {
	case "append":
		if len(args) == 1 {
			return args[0]
		}
		if s, ok := args[1].(Str); ok {
			bs := e.strBytes(s)
			vs := make([]Value, len(bs))
			for i, b := range bs {
				vs[i] = b
			}
			return e.appendVals(args[0].([]Value), vs)
		}
		return e.appendVals(args[0].([]Value), args[1].([]Value))
	case "copy":
		dst := args[0].([]Value)
		var src []Value
		if s, ok := args[1].(Str); ok {
			bs := e.strBytes(s)
			src = make([]Value, len(bs))
			for i, b := range bs {
				src[i] = b
			}
		} else {
			src = args[1].([]Value)
		}
		n := len(dst)
		if len(src) < n {
			n = len(src)
		}
		if n > 0 && &dst[0] != &src[0] {
			tmp := make([]Value, n)
			for i := 0; i < n; i++ {
				tmp[i] = copyVal(src[i])
			}
			for i := 0; i < n; i++ {
				e.store(&dst[i], tmp[i])
			}
		}
		return e.tt.Const(64, uint64(n))
	case "close":
		c := args[0].(*Chan)
		if c == nil {
			panic(e.targetPanicStr("close of nil channel"))
		}
		if c.closed {
			panic(e.targetPanicStr("close of closed channel"))
		}
		e.logUndo(func() { c.closed = false })
		c.closed = true
		return nil
	case "delete":
		e.mapDelete(args[0].(*Map), args[1])
		return nil
	case "print", "println":
		return nil
	case "len":
		switch x := args[0].(type) {
		case Str:
			return e.tt.Const(64, uint64(x.Len()))
		case Array:
			return e.tt.Const(64, uint64(len(x)))
		case *Value:
			if x == nil {
				panic(e.unsupported("len of nil array pointer"))
			}
			return e.tt.Const(64, uint64(len((*x).(Array))))
		case []Value:
			if bl := e.bigLenOf(x); bl != nil {
				return bl
			}
			return e.tt.Const(64, uint64(len(x)))
		case *Map:
			if x == nil {
				return e.tt.Const(64, 0)
			}
			return e.tt.Const(64, uint64(len(x.ents)))
		case *Chan:
			if x == nil {
				return e.tt.Const(64, 0)
			}
			return e.tt.Const(64, uint64(len(x.buf)))
		}
		e.isNilPanicCheck(args[0])
		panic(e.unsupported(fmt.Sprintf("len of %T", args[0])))
	case "cap":
		switch x := args[0].(type) {
		case Array:
			return e.tt.Const(64, uint64(len(x)))
		case *Value:
			return e.tt.Const(64, uint64(len((*x).(Array))))
		case []Value:
			return e.tt.Const(64, uint64(cap(x)))
		case *Chan:
			if x == nil {
				return e.tt.Const(64, 0)
			}
			return e.tt.Const(64, uint64(x.cap))
		}
		panic(e.unsupported(fmt.Sprintf("cap of %T", args[0])))
	case "min", "max":
		r := args[0]
		for _, a := range args[1:] {
			r = e.minmax(fn.Name() == "min", caller, r, a)
		}
		return r
	case "recover":
		return e.doRecover(caller)
	case "clear":
		switch x := args[0].(type) {
		case *Map:
			if x != nil {
				old := x.ents
				e.logUndo(func() { x.ents = old })
				x.ents = nil
			}
		case []Value:
			for i := range x {
				e.store(&x[i], e.zeroLike(x[i]))
			}
		}
		return nil
	case "ssa:wrapnilchk":
		if p, ok := args[0].(*Value); ok && p == nil {
			panic(e.targetPanicStr("runtime error: invalid memory address or nil pointer dereference (value method called via nil pointer)"))
		}
		return args[0]
	}
	panic(e.unsupported("builtin " + fn.Name()))
}

func (e *Engine) zeroLike(v Value) Value {
	switch v := v.(type) {
	case *Term:
		return e.tt.Const(v.w, 0)
	case Str:
		return Str{}
	case Struct:
		c := make(Struct, len(v))
		for i := range v {
			c[i] = e.zeroLike(v[i])
		}
		return c
	case Array:
		c := make(Array, len(v))
		for i := range v {
			c[i] = e.zeroLike(v[i])
		}
		return c
	case *Value:
		return (*Value)(nil)
	case []Value:
		return []Value(nil)
	case Iface:
		return Iface{}
	case *Map:
		return (*Map)(nil)
	case *Chan:
		return (*Chan)(nil)
	case *Closure:
		return (*Closure)(nil)
	}
	return nil
}

func (e *Engine) minmax(isMin bool, caller *frame, a, b Value) Value {
	at, ok := a.(*Term)
	if !ok {
		panic(e.unsupported("min/max on non-integer"))
	}
	bt := b.(*Term)
	// signedness unknown here: builtin's type from call site is not passed; use signed for w=64 int.
	// callers with unsigned operands are rare; detect via frame instruction type when available.
	signed := true
	if caller != nil && caller.curCall != nil {
		_, signed, _, _ = basicInfo(caller.curCall.Type())
	}
	var lt *Term
	if signed {
		lt = e.tt.Slt(at, bt)
	} else {
		lt = e.tt.Ult(at, bt)
	}
	if isMin {
		return e.tt.Ite(lt, at, bt)
	}
	return e.tt.Ite(lt, bt, at)
}

func (e *Engine) appendVals(dst []Value, src []Value) []Value {
	if len(src) == 0 {
		return dst
	}
	n := len(dst)
	if n+len(src) <= cap(dst) {
		out := dst[:n+len(src)]
		for i, v := range src {
			e.store(&out[n+i], copyVal(v))
		}
		return out
	}
	nc := 2 * cap(dst)
	if nc < n+len(src) {
		nc = n + len(src)
	}
	if nc > e.cfg.MaxAlloc {
		nc = n + len(src)
		if nc > e.cfg.MaxAlloc {
			panic(boundErr{fmt.Sprintf("append grows a slice to %d elements, beyond alloc bound %d%s", nc, e.cfg.MaxAlloc, e.where())})
		}
	}
	out := make([]Value, n+len(src), nc)
	for i := 0; i < n; i++ {
		out[i] = copyVal(dst[i])
	}
	for i, v := range src {
		out[n+i] = copyVal(v)
	}
	// zero-fill spare capacity lazily: cells beyond len hold nil until written; fill typed zeros
	// from a sample element so reslicing within cap yields usable cells.
	var z Value
	if len(out) > 0 {
		z = e.zeroLike(out[0])
	}
	full := out[:cap(out)]
	for i := len(out); i < len(full); i++ {
		full[i] = copyVal(z)
	}
	return out
}

var _ = math.Abs
