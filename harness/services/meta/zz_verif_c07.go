//go:build verif_harness

package meta

// C07: a snapshot of the metadata is a point-in-time image: applying further commands (through
// the real storeFSM.Apply) never changes the Data object a snapshot was taken of; no command the
// validator accepts can make Apply panic.

import (
	"time"

	"github.com/gogo/protobuf/proto"
	"github.com/hashicorp/raft"
	internal "github.com/influxdata/influxdb/services/meta/internal"
	"github.com/influxdata/influxql"
)

func init() {
	vRegister("VerifHarness_C07_SnapshotImmutable", VerifHarness_C07_SnapshotImmutable)
}

// engine-side models of the reflection-based protobuf entry points used on the apply path:
// the command and its extension are handed over as structs.
var (
	vC07Cmd *internal.Command
	vC07Ext interface{}
)

func vC07SetExtension(pb proto.Message, ext *proto.ExtensionDesc, value interface{}) error {
	vC07Ext = value
	return nil
}

func vC07Marshal(pb proto.Message) ([]byte, error) {
	vC07Cmd = pb.(*internal.Command)
	return []byte{1}, nil
}

func vC07Unmarshal(buf []byte, pb proto.Message) error {
	c := pb.(*internal.Command)
	c.Type = vC07Cmd.Type
	return nil
}

func vC07GetExtension(pb proto.Message, ext *proto.ExtensionDesc) (interface{}, error) {
	return vC07Ext, nil
}

func vC07Command(t internal.Command_Type, desc *proto.ExtensionDesc, ext interface{}) []byte {
	cmd := &internal.Command{Type: &t}
	if err := proto.SetExtension(cmd, desc, ext); err != nil {
		panic(err)
	}
	b, err := proto.Marshal(cmd)
	if err != nil {
		panic(err)
	}
	return b
}

type vC07Flat struct {
	term, index, cluster, maxNode, maxSG, maxShard uint64
	nodes                                          []NodeInfo
	metas                                          []NodeInfo
	dbs                                            []string
	users                                          []string
	admins                                         []bool
	privs                                          []int
	groups                                         []uint64
	deleted                                        []bool
	owners                                         []uint64
}

func vC07Flatten(d *Data) vC07Flat {
	f := vC07Flat{term: d.Term, index: d.Index, cluster: d.ClusterID, maxNode: d.MaxNodeID, maxSG: d.MaxShardGroupID, maxShard: d.MaxShardID}
	f.nodes = append(f.nodes, d.DataNodes...)
	f.metas = append(f.metas, d.MetaNodes...)
	for _, db := range d.Databases {
		f.dbs = append(f.dbs, db.Name)
		for _, rp := range db.RetentionPolicies {
			f.dbs = append(f.dbs, rp.Name)
			for _, g := range rp.ShardGroups {
				f.groups = append(f.groups, g.ID)
				f.deleted = append(f.deleted, g.Deleted())
				for _, sh := range g.Shards {
					f.groups = append(f.groups, sh.ID)
					for _, o := range sh.Owners {
						f.owners = append(f.owners, o.NodeID)
					}
				}
			}
		}
	}
	for _, u := range d.Users {
		f.users = append(f.users, u.Name, u.Hash)
		f.admins = append(f.admins, u.Admin)
		f.privs = append(f.privs, len(u.Privileges), int(u.Privileges["db"]))
	}
	return f
}

func vC07SameContent(a, b vC07Flat) bool {
	if a.cluster != b.cluster || a.maxNode != b.maxNode || a.maxSG != b.maxSG || a.maxShard != b.maxShard {
		return false
	}
	if len(a.nodes) != len(b.nodes) || len(a.metas) != len(b.metas) || len(a.dbs) != len(b.dbs) || len(a.users) != len(b.users) ||
		len(a.groups) != len(b.groups) || len(a.owners) != len(b.owners) || len(a.privs) != len(b.privs) {
		return false
	}
	for i := range a.nodes {
		if a.nodes[i] != b.nodes[i] {
			return false
		}
	}
	for i := range a.metas {
		if a.metas[i] != b.metas[i] {
			return false
		}
	}
	for i := range a.dbs {
		if a.dbs[i] != b.dbs[i] {
			return false
		}
	}
	for i := range a.users {
		if a.users[i] != b.users[i] {
			return false
		}
	}
	for i := range a.admins {
		if a.admins[i] != b.admins[i] {
			return false
		}
	}
	for i := range a.privs {
		if a.privs[i] != b.privs[i] {
			return false
		}
	}
	for i := range a.groups {
		if a.groups[i] != b.groups[i] {
			return false
		}
	}
	for i := range a.deleted {
		if a.deleted[i] != b.deleted[i] {
			return false
		}
	}
	for i := range a.owners {
		if a.owners[i] != b.owners[i] {
			return false
		}
	}
	return true
}

func VerifHarness_C07_SnapshotImmutable() {
	// metadata built through the mutators themselves (so slice capacities are what real histories
	// produce), then 1..2 further commands through the real Apply
	d := &Data{Index: 1}
	nMeta := vLen("metaNodes", 0, 1)
	for i := 0; i < nMeta; i++ {
		d.CreateMetaNode("m:8091", "m:8089")
	}
	nData := vLen("dataNodes", 1, 3)
	addrs := []string{"a:8088", "b:8088", "m:8089"}
	for i := 0; i < nData; i++ {
		d.CreateDataNode("h"+addrs[i], addrs[i])
	}
	d.CreateDatabase("db")
	d.CreateRetentionPolicy("db", &RetentionPolicyInfo{Name: "rp", ReplicaN: 1, Duration: 0, ShardGroupDuration: time.Hour}, true)
	d.CreateShardGroup("db", "rp", time.Unix(0, 0))
	d.CreateUser("u", "hash", false)
	s := &store{data: d, dataChanged: make(chan struct{}), closing: make(chan struct{}), config: NewConfig()}
	fsm := (*storeFSM)(s)

	snap, err := fsm.Snapshot()
	vAssume(err == nil)
	held := snap.(*storeFSMSnapshot).Data
	before := vC07Flatten(held)

	steps := vLen("commands", 1, 2)
	failedSome := false
	for st := 0; st < steps; st++ {
		var buf []byte
		id := uint64(vLen("nodeID", 1, 4))
		switch vChoice("command", 9) {
		case 0:
			buf = vC07Command(internal.Command_UpdateDataNodeCommand, internal.E_UpdateDataNodeCommand_Command,
				&internal.UpdateDataNodeCommand{ID: proto.Uint64(id), HTTPAddr: proto.String("new:8086"), TCPAddr: proto.String("new:8088")})
		case 1:
			tcp := []string{"c:8088", "m:8089", "a:8088"}[vChoice("newNodeAddr", 3)]
			buf = vC07Command(internal.Command_CreateDataNodeCommand, internal.E_CreateDataNodeCommand_Command,
				&internal.CreateDataNodeCommand{HTTPAddr: proto.String("h" + tcp), TCPAddr: proto.String(tcp)})
		case 2:
			buf = vC07Command(internal.Command_DeleteDataNodeCommand, internal.E_DeleteDataNodeCommand_Command,
				&internal.DeleteDataNodeCommand{ID: proto.Uint64(id)})
		case 3:
			name := []string{"db", "db2"}[vChoice("dbName", 2)]
			buf = vC07Command(internal.Command_CreateDatabaseCommand, internal.E_CreateDatabaseCommand_Command,
				&internal.CreateDatabaseCommand{Name: proto.String(name)})
		case 4:
			name := []string{"db", "nope"}[vChoice("dbName", 2)]
			buf = vC07Command(internal.Command_DropDatabaseCommand, internal.E_DropDatabaseCommand_Command,
				&internal.DropDatabaseCommand{Name: proto.String(name)})
		case 5:
			buf = vC07Command(internal.Command_DeleteShardGroupCommand, internal.E_DeleteShardGroupCommand_Command,
				&internal.DeleteShardGroupCommand{Database: proto.String("db"), Policy: proto.String("rp"), ShardGroupID: proto.Uint64(id)})
		case 6:
			user := []string{"u", "nobody"}[vChoice("userName", 2)]
			buf = vC07Command(internal.Command_SetPrivilegeCommand, internal.E_SetPrivilegeCommand_Command,
				&internal.SetPrivilegeCommand{Username: proto.String(user), Database: proto.String("db"), Privilege: proto.Int32(int32(influxql.AllPrivileges))})
		case 7:
			buf = vC07Command(internal.Command_SetMetaNodeCommand, internal.E_SetMetaNodeCommand_Command,
				&internal.SetMetaNodeCommand{HTTPAddr: proto.String("m2:8091"), TCPAddr: proto.String("m2:8089"), Rand: proto.Uint64(42)})
		default:
			buf = vC07Command(internal.Command_CreateShardGroupCommand, internal.E_CreateShardGroupCommand_Command,
				&internal.CreateShardGroupCommand{Database: proto.String("db"), Policy: proto.String("rp"), Timestamp: proto.Int64(int64(5 * time.Hour))})
		}
		res := fsm.Apply(&raft.Log{Index: uint64(10 + st), Term: 3, Data: buf})
		if res != nil {
			failedSome = true
		}
	}
	after := vC07Flatten(held)
	// known findings: C07-F1 Data.Clone shares DataNodes/MetaNodes with the published copy;
	// C07-F2 Apply stamps Term/Index on the published object when the command was rejected.
	vAssertKF(vC07SameContent(before, after), "C07.snapshot-unaffected-by-later-commands", true, "C07-F1")
	vAssertKF(before.term == after.term && before.index == after.index, "C07.snapshot-index-unaffected-by-later-commands", failedSome, "C07-F2")
	vObserve("failedSome", failedSome)
	vReach("C07.snapshot.end")
}
