//go:build verif_harness

package coordinator

// C05: every shard of the query range is read from exactly one live owner, or the query fails.

import (
	"bytes"
	"context"
	"encoding"
	"errors"
	"math/rand"
	"net"
	"time"

	"github.com/influxdata/influxdb/query"
	"github.com/influxdata/influxdb/services/meta"
	"github.com/influxdata/influxdb/storage/reads/datatypes"
	"github.com/influxdata/influxdb/tsdb"
	"github.com/influxdata/influxql"
)

func init() {
	vRegister("VerifHarness_C05_MapShards", VerifHarness_C05_MapShards)
	vRegister("VerifHarness_C05_RemoteErrorSurfaces", VerifHarness_C05_RemoteErrorSurfaces)
	vRegister("VerifHarness_C05_RetryCoversEveryShard", VerifHarness_C05_RetryCoversEveryShard)
	vRegister("VerifHarness_C05_RetryCostCountsEveryShardOnce", VerifHarness_C05_RetryCostCountsEveryShardOnce)
}

// vRandIntn replaces math/rand.Intn in the engine: any value in [0,n).
func vRandIntn(n int) int { return vEnvChoice("rand.Intn", n) }

var _ = rand.Intn

type vC05Meta struct {
	MetaClient // unimplemented methods panic if reached
	local      uint64
	groups     []meta.ShardGroupInfo
	nodes      int
}

func (m *vC05Meta) NodeID() uint64 { return m.local }
func (m *vC05Meta) DataNode(id uint64) (*meta.NodeInfo, error) {
	if id >= 1 && int(id) <= m.nodes {
		return &meta.NodeInfo{ID: id}, nil
	}
	return nil, meta.ErrNodeNotFound
}
func (m *vC05Meta) ShardGroupsByTimeRange(db, rp string, min, max time.Time) ([]meta.ShardGroupInfo, error) {
	return m.groups, nil
}

type vC05Store struct{ calls int }

// vC05LocalGroup is the local shard group the store hands out: what is read locally is what the
// mapping finally holds for the source (re-mapping a source replaces it, it does not add to it).
type vC05LocalGroup struct {
	tsdb.ShardGroup
	ids []uint64
}

func (s *vC05Store) ShardGroup(ids []uint64) tsdb.ShardGroup {
	s.calls++
	return &vC05LocalGroup{ids: append([]uint64(nil), ids...)}
}

// Shard -> node partition for every ownership layout of up to 2 groups x 2 shards over 3 nodes.
func VerifHarness_C05_MapShards() {
	nodes := 3
	mc := &vC05Meta{nodes: nodes}
	mc.local = uint64(vLen("coordinatingNode", 1, nodes+1)) // nodes+1: a node that owns nothing
	nGroups := vLen("groups", 1, 2)
	id := uint64(0)
	type sh struct {
		id     uint64
		owners []uint64
	}
	var all []sh
	for g := 0; g < nGroups; g++ {
		sg := meta.ShardGroupInfo{ID: uint64(g + 1)}
		nSh := vLen("shards", 1, 2)
		for s := 0; s < nSh; s++ {
			id++
			si := meta.ShardInfo{ID: id}
			var os []uint64
			// every shard has at least one owner (what the metadata mutators guarantee)
			switch vChoice("ownerSet", 7) {
			case 0:
				os = []uint64{1}
			case 1:
				os = []uint64{2}
			case 2:
				os = []uint64{3}
			case 3:
				os = []uint64{1, 2}
			case 4:
				os = []uint64{1, 3}
			case 5:
				os = []uint64{2, 3}
			default:
				os = []uint64{1, 2, 3}
			}
			for _, o := range os {
				si.Owners = append(si.Owners, meta.ShardOwner{NodeID: o})
			}
			sg.Shards = append(sg.Shards, si)
			all = append(all, sh{id, os})
		}
		mc.groups = append(mc.groups, sg)
	}
	st := &vC05Store{}
	e := &ClusterShardMapper{MetaClient: mc, TSDBStore: st}
	optNode := uint64(vLen("readFromNode", 0, nodes)) // 0: all nodes
	src := influxql.Sources{&influxql.Measurement{Database: "db", RetentionPolicy: "rp", Name: "m"}}
	// SELECT ... FROM m, m2: a second measurement of the same database and policy maps to the
	// same shards and must not add them again
	if vBool("secondMeasurementSource") {
		src = append(src, &influxql.Measurement{Database: "db", RetentionPolicy: "rp", Name: "m2"})
	}
	sgIface, err := e.MapShards(src, influxql.TimeRange{}, query.SelectOptions{NodeID: optNode})
	vAssert(err == nil, "C05.mapshards-ok")
	if err != nil {
		return
	}
	a := sgIface.(*ClusterShardMapping)
	source := Source{Database: "db", RetentionPolicy: "rp"}
	for _, s := range all {
		owned := func(n uint64) bool {
			for _, o := range s.owners {
				if o == n {
					return true
				}
			}
			return false
		}
		count := 0
		var reader uint64
		if lg, ok := a.LocalShardMapping.ShardMap[source].(*vC05LocalGroup); ok && lg != nil {
			for _, x := range lg.ids {
				if x == s.id {
					count++
					reader = mc.local
				}
			}
		}
		for _, rg := range a.RemoteShardMapping[source] {
			for _, si := range rg.shards {
				if si.ID == s.id {
					count++
					reader = rg.nodeID
				}
			}
		}
		if optNode == 0 {
			vAssert(count == 1, "C05.every-shard-read-exactly-once")
			if count == 1 {
				vAssert(owned(reader), "C05.shard-read-from-an-owner")
				if owned(mc.local) {
					vAssert(reader == mc.local, "C05.local-owner-preferred")
				}
			}
		} else {
			want := 0
			if owned(optNode) {
				want = 1
			}
			vAssert(count == want, "C05.exclusive-node-reads-exactly-its-shards")
			if count == 1 {
				vAssert(reader == optNode, "C05.shard-read-from-an-owner")
			}
		}
	}
	vObserve("localGroupRequests", st.calls)
	vReach("C05.mapshards.end")
}

// --- remote error must surface (MetaExecutor.CreateIterator / ReadFilter / ReadGroup)

type vC05Conn struct {
	r      *bytes.Reader
	closed bool
}

func (c *vC05Conn) Read(p []byte) (int, error)         { return c.r.Read(p) }
func (c *vC05Conn) Write(p []byte) (int, error)        { return len(p), nil }
func (c *vC05Conn) Close() error                       { c.closed = true; return nil }
func (c *vC05Conn) LocalAddr() net.Addr                { return nil }
func (c *vC05Conn) RemoteAddr() net.Addr               { return nil }
func (c *vC05Conn) SetDeadline(t time.Time) error      { return nil }
func (c *vC05Conn) SetReadDeadline(t time.Time) error  { return nil }
func (c *vC05Conn) SetWriteDeadline(t time.Time) error { return nil }

type vC05Pool struct{ conn net.Conn }

func (p *vC05Pool) Get() (net.Conn, error) { return p.conn, nil }
func (p *vC05Pool) Close()                 {}
func (p *vC05Pool) Len() int               { return 1 }
func (p *vC05Pool) Size() int              { return 1 }

var vC05RemoteErr bool // what the modelled peer answers (engine side)

// vC05Response renders the peer's response frame (native: the real wire encoding).
func vC05Response(kind int, remoteErr bool) []byte {
	var buf bytes.Buffer
	var rerr error
	if remoteErr {
		rerr = errors.New("shard 7 not found on remote node")
	}
	switch kind {
	case 0:
		EncodeTLV(&buf, createIteratorResponseMessage, &CreateIteratorResponse{Err: rerr, Type: influxql.Integer})
	case 1:
		EncodeTLV(&buf, storeReadFilterResponseMessage, &StoreReadFilterResponse{Err: rerr})
	default:
		EncodeTLV(&buf, storeReadGroupResponseMessage, &StoreReadGroupResponse{Err: rerr})
	}
	return buf.Bytes()
}

// engine-side models of the protobuf-backed frame codec
func vC05ResponseModel(kind int, remoteErr bool) []byte {
	vC05RemoteErr = remoteErr
	return []byte{0}
}

func vC05EncodeTLVT(w net.Conn, typ byte, v encoding.BinaryMarshaler, t time.Duration) error {
	return nil
}

func vC05DecodeTLVT(r net.Conn, v encoding.BinaryUnmarshaler, t time.Duration) (byte, error) {
	var rerr error
	if vC05RemoteErr {
		rerr = errors.New("shard 7 not found on remote node")
	}
	switch x := v.(type) {
	case *CreateIteratorResponse:
		x.Err, x.Type = rerr, influxql.Integer
	case *StoreReadFilterResponse:
		x.Err = rerr
	case *StoreReadGroupResponse:
		x.Err = rerr
	}
	return 0, nil
}

func VerifHarness_C05_RemoteErrorSurfaces() {
	kind := vChoice("request", 3)
	remoteErr := vBool("remoteAnswersWithError")
	conn := &vC05Conn{r: bytes.NewReader(vC05Response(kind, remoteErr))}
	e := NewMetaExecutor(time.Second, time.Second, time.Second, 4)
	e.pool.setPool(2, &vC05Pool{conn: conn})
	var err error
	switch kind {
	case 0:
		_, err = e.CreateIterator(2, []uint64{7}, context.Background(), &influxql.Measurement{Name: "m"}, query.IteratorOptions{})
	case 1:
		_, err = e.ReadFilter(2, []uint64{7}, context.Background(), &datatypes.ReadFilterRequest{})
	default:
		_, err = e.ReadGroup(2, []uint64{7}, context.Background(), &datatypes.ReadGroupRequest{})
	}
	// known finding C05-F1: `else if resp.Err != nil { return err }` returns the nil outer err
	vAssertKF(!remoteErr || err != nil, "C05.remote-error-is-returned", remoteErr, "C05-F1")
	vAssert(remoteErr || err == nil, "C05.no-error-without-remote-error")
	if err != nil {
		vAssert(conn.closed, "C05.connection-closed-on-error")
	}
	vObserve("err", err != nil)
	vReach("C05.remoteerr.end")
}

// --- retry over other owners (remoteShardGroup.CreateIterator + shuffleShards)

type vC05NodeFate struct {
	down   [5]bool
	served map[uint64]uint64 // shard -> node of the iterator that was returned
	calls  int
}

var vC05Fate *vC05NodeFate

type vC05Iter struct {
	query.Iterator
	node   uint64
	shards []uint64
	closed bool
}

func (it *vC05Iter) Close() error { it.closed = true; return nil }

// vC05ExecCreateIterator replaces (*MetaExecutor).CreateIterator in the engine.
func vC05ExecCreateIterator(e *MetaExecutor, nodeID uint64, shardIDs []uint64, ctx context.Context, m *influxql.Measurement, opt query.IteratorOptions) (query.Iterator, error) {
	vC05Fate.calls++
	if vC05Fate.down[nodeID] {
		return nil, errors.New("dial: connection refused")
	}
	return &vC05Iter{node: nodeID, shards: append([]uint64(nil), shardIDs...)}, nil
}

func VerifHarness_C05_RetryCoversEveryShard() {
	fate := &vC05NodeFate{}
	vC05Fate = fate
	for n := 1; n <= 3; n++ {
		fate.down[n] = vBool("nodeDown")
	}
	nSh := vLen("shards", 1, 3)
	var shards shardInfos
	first := uint64(vLen("firstNode", 1, 3))
	for i := 0; i < nSh; i++ {
		si := meta.ShardInfo{ID: uint64(i + 1)}
		var os []uint64
		switch vChoice("ownerSet", 4) {
		case 0:
			os = []uint64{first}
		case 1:
			os = []uint64{first, first%3 + 1}
		case 2:
			os = []uint64{first, (first+1)%3 + 1}
		default:
			os = []uint64{1, 2, 3}
		}
		for _, o := range os {
			si.Owners = append(si.Owners, meta.ShardOwner{NodeID: o})
		}
		shards = append(shards, si)
	}
	rg := newRemoteShardGroup(&MetaExecutor{}, first, shards, true)
	its, err := rg.CreateIterator(context.Background(), &influxql.Measurement{Name: "m"}, query.IteratorOptions{})
	servable := true
	for _, si := range shards {
		ok := false
		for _, o := range si.Owners {
			if !fate.down[o.NodeID] {
				ok = true
			}
		}
		if !ok {
			servable = false
		}
	}
	if err == nil {
		for _, si := range shards {
			n := 0
			for _, it := range its {
				vi := it.(*vC05Iter)
				for _, id := range vi.shards {
					if id == si.ID {
						n++
						vAssert(si.OwnedBy(vi.node) && !fate.down[vi.node], "C05.shard-read-from-a-live-owner")
					}
				}
				vAssert(!vi.closed, "C05.returned-iterators-are-open")
			}
			vAssert(n == 1, "C05.every-shard-read-exactly-once")
		}
		vReach("C05.retry.success")
	} else {
		vAssert(len(its) == 0, "C05.no-iterators-with-error")
		vReach("C05.retry.failed")
	}
	if !servable {
		vAssert(err != nil, "C05.unservable-shard-fails-the-query")
	} else {
		vAssert(err == nil, "C05.shard-with-a-live-owner-is-served")
	}
	vAssert(fate.calls <= 12, "C05.retry-terminates")
}

// --- the same fail-over for the cost estimate (remoteShardGroup.IteratorCost): on success the
// returned costs account for every shard of the group exactly once, whatever rounds failed before

func vC05ExecIteratorCost(e *MetaExecutor, nodeID uint64, shardIDs []uint64, m *influxql.Measurement, opt query.IteratorOptions) (query.IteratorCost, error) {
	vC05Fate.calls++
	if vC05Fate.down[nodeID] {
		return query.IteratorCost{}, errors.New("dial: connection refused")
	}
	return query.IteratorCost{NumShards: int64(len(shardIDs)), NumSeries: int64(len(shardIDs))}, nil
}

func VerifHarness_C05_RetryCostCountsEveryShardOnce() {
	fate := &vC05NodeFate{}
	vC05Fate = fate
	for n := 1; n <= 3; n++ {
		fate.down[n] = vBool("nodeDown")
	}
	nSh := vLen("shards", 1, 3)
	var shards shardInfos
	first := uint64(vLen("firstNode", 1, 3))
	for i := 0; i < nSh; i++ {
		si := meta.ShardInfo{ID: uint64(i + 1)}
		var os []uint64
		switch vChoice("ownerSet", 4) {
		case 0:
			os = []uint64{first}
		case 1:
			os = []uint64{first, first%3 + 1}
		case 2:
			os = []uint64{first, (first+1)%3 + 1}
		default:
			os = []uint64{1, 2, 3}
		}
		for _, o := range os {
			si.Owners = append(si.Owners, meta.ShardOwner{NodeID: o})
		}
		shards = append(shards, si)
	}
	rg := newRemoteShardGroup(&MetaExecutor{}, first, shards, true)
	costs, err := rg.IteratorCost(&influxql.Measurement{Name: "m"}, query.IteratorOptions{})
	servable := true
	for _, si := range shards {
		ok := false
		for _, o := range si.Owners {
			if !fate.down[o.NodeID] {
				ok = true
			}
		}
		if !ok {
			servable = false
		}
	}
	if err == nil {
		var total int64
		for _, c := range costs {
			total += c.NumShards
		}
		vAssert(total == int64(nSh), "C05.cost-counts-every-shard-exactly-once")
		vReach("C05.cost.success")
	} else {
		vAssert(len(costs) == 0, "C05.no-costs-with-error")
	}
	if !servable {
		vAssert(err != nil, "C05.unservable-shard-fails-the-query")
	} else {
		vAssert(err == nil, "C05.shard-with-a-live-owner-is-served")
	}
	vAssert(fate.calls <= 12, "C05.retry-terminates")
	vReach("C05.cost.end")
}
