#!/usr/bin/env python3
# usage: addcheck.py Cxx "<level text>" "<level note>"  — adds/updates a check entry in MANIFEST.json
import json,sys
prop,text,note=sys.argv[1:4]
m=json.load(open('/verif/MANIFEST.json'))
e={"property_id":prop,"quick_cmd":f"./check {prop} --tier quick","thorough_cmd":f"./check {prop} --tier thorough",
 "evidence_file":f"/verif/evidence/{prop}.json","replay_cmd_template":"./check --replay {path}","engine":"gosym",
 "technique":"bounded symbolic execution of the real Go SSA + SMT (z3), native replay of models",
 "level_claimed":{"category":"model_checking","text":text,"design_ref":f"DESIGN.md §5 {prop}"},"level_note":note}
m['checks']=[c for c in m['checks'] if c['property_id']!=prop]+[e]
m['checks'].sort(key=lambda c:c['property_id'])
sp=m['engines'][0]['serves_properties']
if prop not in sp: sp.append(prop); sp.sort()
m['not_applicable']=[n for n in m.get('not_applicable',[]) if n['property_id']!=prop]
json.dump(m,open('/verif/MANIFEST.json','w'),indent=1)
