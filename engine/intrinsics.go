package main

import (
	"fmt"
	"go/types"
	"math"
	"strconv"
	"strings"

	"golang.org/x/tools/go/ssa"
)

type intrinsic func(e *Engine, caller *frame, fn *ssa.Function, args []Value) Value

var intrinsics map[string]intrinsic

func noop(e *Engine, caller *frame, fn *ssa.Function, args []Value) Value { return nil }

// zeroResult returns the zero value(s) of fn's results.
func zeroResult(e *Engine, caller *frame, fn *ssa.Function, args []Value) Value {
	res := fn.Signature.Results()
	// func-typed results of a stubbed (logging) package become callable no-ops
	// (e.g. the `logEnd` func returned by logger.NewOperation)
	z := func(t types.Type) Value {
		if sig, ok := t.Underlying().(*types.Signature); ok {
			return NoopFunc{sig: sig}
		}
		return e.zero(t)
	}
	switch res.Len() {
	case 0:
		return nil
	case 1:
		return z(res.At(0).Type())
	}
	tp := make(Tuple, res.Len())
	for i := range tp {
		tp[i] = z(res.At(i).Type())
	}
	return tp
}

// NoopFunc is a function value that does nothing and returns zero values.
type NoopFunc struct{ sig *types.Signature }

func init() {
	intrinsics = map[string]intrinsic{
		// --- sync (sequential model: locks are no-ops)
		"(*sync.Mutex).Lock":      noop,
		"(*sync.Mutex).Unlock":    noop,
		"(*sync.Mutex).TryLock":   func(e *Engine, c *frame, f *ssa.Function, a []Value) Value { return e.tt.True },
		"(*sync.RWMutex).Lock":    noop,
		"(*sync.RWMutex).Unlock":  noop,
		"(*sync.RWMutex).RLock":   noop,
		"(*sync.RWMutex).RUnlock": noop,
		"(*sync.RWMutex).TryLock": func(e *Engine, c *frame, f *ssa.Function, a []Value) Value { return e.tt.True },
		"(*sync.RWMutex).TryRLock": func(e *Engine, c *frame, f *ssa.Function, a []Value) Value { return e.tt.True },
		"(*sync.WaitGroup).Add":   noop,
		"(*sync.WaitGroup).Done":  noop,
		"(*sync.WaitGroup).Wait":  noop,
		"(*sync.Cond).Wait":       noop,
		"(*sync.Cond).Signal":     noop,
		"(*sync.Cond).Broadcast":  noop,
		"(*sync.Pool).Put":        noop,
		"(*sync.Pool).Get":        inPoolGet,
		"runtime.Gosched":         noop,
		"runtime.SetFinalizer":    noop,
		"runtime.KeepAlive":       noop,
		"runtime.GC":              noop,
		"runtime.GOMAXPROCS":      func(e *Engine, c *frame, f *ssa.Function, a []Value) Value { return e.tt.Const(64, 16) },
		"runtime.NumCPU":          func(e *Engine, c *frame, f *ssa.Function, a []Value) Value { return e.tt.Const(64, 16) },
		"time.Sleep":              noop,
		"internal/race.Enabled":   noop,

		// --- sync/atomic (plain accesses)
		"sync/atomic.LoadInt32":   inAtomicLoad,
		"sync/atomic.LoadInt64":   inAtomicLoad,
		"sync/atomic.LoadUint32":  inAtomicLoad,
		"sync/atomic.LoadUint64":  inAtomicLoad,
		"sync/atomic.LoadUintptr": inAtomicLoad,
		"sync/atomic.LoadPointer": inAtomicLoad,
		"sync/atomic.StoreInt32":  inAtomicStore,
		"sync/atomic.StoreInt64":  inAtomicStore,
		"sync/atomic.StoreUint32": inAtomicStore,
		"sync/atomic.StoreUint64": inAtomicStore,
		"sync/atomic.StoreUintptr": inAtomicStore,
		"sync/atomic.StorePointer": inAtomicStore,
		"sync/atomic.AddInt32":    inAtomicAdd,
		"sync/atomic.AddInt64":    inAtomicAdd,
		"sync/atomic.AddUint32":   inAtomicAdd,
		"sync/atomic.AddUint64":   inAtomicAdd,
		"sync/atomic.AddUintptr":  inAtomicAdd,
		"sync/atomic.SwapInt32":   inAtomicSwap,
		"sync/atomic.SwapInt64":   inAtomicSwap,
		"sync/atomic.SwapUint32":  inAtomicSwap,
		"sync/atomic.SwapUint64":  inAtomicSwap,
		"sync/atomic.SwapPointer": inAtomicSwap,
		"sync/atomic.CompareAndSwapInt32":  inAtomicCAS,
		"sync/atomic.CompareAndSwapInt64":  inAtomicCAS,
		"sync/atomic.CompareAndSwapUint32": inAtomicCAS,
		"sync/atomic.CompareAndSwapUint64": inAtomicCAS,
		"sync/atomic.CompareAndSwapPointer": inAtomicCAS,
		"(*sync/atomic.Value).Load":  inAtomicValueLoad,
		"(*sync/atomic.Value).Store": inAtomicValueStore,

		// --- fmt / errors
		"fmt.Errorf":   inErrorf,
		"fmt.Sprintf":  inSprintf,
		"fmt.Sprint":   inSprint,
		"fmt.Sprintln": inSprint,
		"fmt.Printf":   zeroResult,
		"fmt.Println":  zeroResult,
		"fmt.Print":    zeroResult,
		"fmt.Fprintf":  zeroResult,
		"fmt.Fprintln": zeroResult,
		"fmt.Fprint":   zeroResult,

		// --- math
		"math.IsNaN": inIsNaN,
		"math.IsInf": inIsInf,
		"math.Float64bits":     func(e *Engine, c *frame, f *ssa.Function, a []Value) Value { return a[0] },
		"math.Float64frombits": func(e *Engine, c *frame, f *ssa.Function, a []Value) Value { return a[0] },
		"math.Float32bits":     func(e *Engine, c *frame, f *ssa.Function, a []Value) Value { return a[0] },
		"math.Float32frombits": func(e *Engine, c *frame, f *ssa.Function, a []Value) Value { return a[0] },
		"math.Abs":   inMath1(math.Abs),
		"math.Floor": inMath1(math.Floor),
		"math.Ceil":  inMath1(math.Ceil),
		"math.Log10": inMath1(math.Log10),
		"math.Log2":  inMath1(math.Log2),
		"math.Log":   inMath1(math.Log),
		"math.Sqrt":  inMath1(math.Sqrt),
		"math.Trunc": inMath1(math.Trunc),
		"math.Pow":   inMath2(math.Pow),
		"math.Mod":   inMath2(math.Mod),
		"math.Max":   inMath2(math.Max),
		"math.Min":   inMath2(math.Min),
		"math.Inf": func(e *Engine, c *frame, f *ssa.Function, a []Value) Value {
			return e.constFloat(64, math.Inf(int(a[0].(*Term).S())))
		},
		"math.NaN": func(e *Engine, c *frame, f *ssa.Function, a []Value) Value { return e.constFloat(64, math.NaN()) },

		// --- math/bits
		"math/bits.LeadingZeros64":  inBitsFn(64, "lz"),
		"math/bits.LeadingZeros32":  inBitsFn(32, "lz"),
		"math/bits.LeadingZeros8":   inBitsFn(8, "lz"),
		"math/bits.TrailingZeros64": inBitsFn(64, "tz"),
		"math/bits.TrailingZeros32": inBitsFn(32, "tz"),
		"math/bits.TrailingZeros":   inBitsFn(64, "tz"),
		"math/bits.Len64":           inBitsFn(64, "len"),
		"math/bits.Len32":           inBitsFn(32, "len"),
		"math/bits.Len":             inBitsFn(64, "len"),
		"math/bits.Len8":            inBitsFn(8, "len"),
		"math/bits.OnesCount64":     inBitsFn(64, "pop"),

		// --- bytealg (assembly in the real build)
		"internal/bytealg.IndexByte":       inIndexByte,
		"internal/bytealg.IndexByteString": inIndexByte,
		"internal/bytealg.Equal":           inBytesEqual,
		"bytes.Equal":                      inBytesEqual,
		"internal/bytealg.Compare":         inBytesCompare,
		"bytes.Compare":                    inBytesCompare,
		"internal/bytealg.CompareString":   inBytesCompare,
		"strings.Compare":                  inBytesCompare,
		"internal/bytealg.Count":           inCountByte,
		"internal/bytealg.CountString":     inCountByte,
		"internal/bytealg.MakeNoZero":      inMakeNoZero,
		"internal/stringslite.Clone":       func(e *Engine, c *frame, f *ssa.Function, a []Value) Value { return a[0] },
		"strings.Clone":                    func(e *Engine, c *frame, f *ssa.Function, a []Value) Value { return a[0] },
		"(*strings.Builder).String":        inBuilderString,
		"(*strings.Builder).copyCheck":     noop,
		"internal/abi.NoEscape":            func(e *Engine, c *frame, f *ssa.Function, a []Value) Value { return a[0] },
		"internal/abi.Escape":              func(e *Engine, c *frame, f *ssa.Function, a []Value) Value { return a[0] },

		// --- sort
		"sort.Slice":         inSortSlice,
		"sort.SliceStable":   inSortSlice,
		"sort.SliceIsSorted": inSliceIsSorted,

		// --- os / env
		"os.Getenv":   func(e *Engine, c *frame, f *ssa.Function, a []Value) Value { return Str{} },
		"os.Getpid":   func(e *Engine, c *frame, f *ssa.Function, a []Value) Value { return e.tt.Const(64, 4242) },
	}
	registerTimeIntrinsics()
	registerHarnessIntrinsics()
}

// dynamicIntrinsic resolves name-pattern based stubs: harness v* functions in any package, and
// whole packages configured as no-op (logging, statistics).
func (e *Engine) dynamicIntrinsic(fn *ssa.Function, name string) intrinsic {
	if fn.Pkg != nil || fn.Signature.Recv() != nil {
		pkgPath := ""
		if fn.Pkg != nil {
			pkgPath = fn.Pkg.Pkg.Path()
		} else if fn.Object() != nil && fn.Object().Pkg() != nil {
			pkgPath = fn.Object().Pkg().Path()
		}
		if fn.Signature.Recv() == nil {
			if h, ok := harnessIntrinsics[fn.Name()]; ok && e.cfg.isHarnessPkg(pkgPath) {
				return h
			}
		}
		if e.cfg.noopPkg(pkgPath) {
			return zeroResult
		}
	}
	return nil
}

func inPoolGet(e *Engine, caller *frame, fn *ssa.Function, args []Value) Value {
	p := args[0].(*Value)
	st := (*p).(Struct)
	// sync.Pool{noCopy, local, localSize, victim, victimSize, New}
	newFn := st[len(st)-1]
	if n, _ := e.isNil(newFn); n {
		return Iface{}
	}
	return e.call(caller, newFn, nil, caller.pos)
}

func inAtomicLoad(e *Engine, caller *frame, fn *ssa.Function, args []Value) Value {
	return e.load(args[0].(*Value))
}

func inAtomicStore(e *Engine, caller *frame, fn *ssa.Function, args []Value) Value {
	e.store(args[0].(*Value), args[1])
	return nil
}

func inAtomicAdd(e *Engine, caller *frame, fn *ssa.Function, args []Value) Value {
	p := args[0].(*Value)
	n := e.tt.Bin(OpAdd, e.load(p).(*Term), args[1].(*Term))
	e.store(p, n)
	return n
}

func inAtomicSwap(e *Engine, caller *frame, fn *ssa.Function, args []Value) Value {
	p := args[0].(*Value)
	old := e.load(p)
	e.store(p, args[1])
	return old
}

func inAtomicCAS(e *Engine, caller *frame, fn *ssa.Function, args []Value) Value {
	p := args[0].(*Value)
	cur := e.load(p)
	if e.Decide(e.equals(cur, args[1])) {
		e.store(p, args[2])
		return e.tt.True
	}
	return e.tt.False
}

// atomic.Value{v any}
func inAtomicValueLoad(e *Engine, caller *frame, fn *ssa.Function, args []Value) Value {
	p := args[0].(*Value)
	return (*p).(Struct)[0]
}

func inAtomicValueStore(e *Engine, caller *frame, fn *ssa.Function, args []Value) Value {
	p := args[0].(*Value)
	st := (*p).(Struct)
	e.store(&st[0], args[1])
	return nil
}

// ---- formatting

// formatOperand renders a value for %v/%s/%d; ok=false if it is not concrete.
func (e *Engine) formatOperand(v Value, verb byte, caller *frame) (string, bool) {
	switch v := v.(type) {
	case Iface:
		if v.T == nil {
			return "<nil>", true
		}
		// error / Stringer
		if verb == 'v' || verb == 's' || verb == 'q' {
			for _, mname := range []string{"Error", "String"} {
				sel := e.prog.MethodSets.MethodSet(v.T).Lookup(nil, mname)
				if sel == nil {
					continue
				}
				if m := e.prog.MethodValue(sel); m != nil && m.Signature.Params().Len() == 0 && m.Signature.Results().Len() == 1 {
					if b, ok := m.Signature.Results().At(0).Type().Underlying().(*types.Basic); ok && b.Info()&types.IsString != 0 {
						var out Value
						func() {
							defer func() {
								if r := recover(); r != nil {
									if _, ok := r.(unsupportedErr); ok {
										out = nil
										return
									}
									panic(r)
								}
							}()
							out = e.call(caller, m, []Value{v.V}, caller.pos)
						}()
						if s, ok := out.(Str); ok && s.Concrete() {
							if verb == 'q' {
								return strconv.Quote(s.S), true
							}
							return s.S, true
						}
						return "", false
					}
				}
			}
		}
		return e.formatTyped(v.V, v.T, verb)
	}
	return e.formatTyped(v, nil, verb)
}

func (e *Engine) formatTyped(v Value, t types.Type, verb byte) (string, bool) {
	switch v := v.(type) {
	case *Term:
		if !v.IsConst() {
			return "", false
		}
		if v.w == 0 {
			return strconv.FormatBool(v.val != 0), true
		}
		signed, isF := true, false
		if t != nil {
			_, signed, isF, _ = basicInfo(t)
		}
		if isF {
			return strconv.FormatFloat(floatOf(v), 'g', -1, int(v.w)), true
		}
		base := 10
		switch verb {
		case 'x':
			base = 16
		case 'o':
			base = 8
		case 'b':
			base = 2
		case 'c':
			return string(rune(v.S())), true
		case 'q':
			return strconv.QuoteRune(rune(v.S())), true
		}
		if signed {
			return strconv.FormatInt(v.S(), base), true
		}
		return strconv.FormatUint(v.U(), base), true
	case Str:
		if !v.Concrete() {
			return "", false
		}
		if verb == 'q' {
			return strconv.Quote(v.S), true
		}
		if verb == 'x' {
			return fmt.Sprintf("%x", v.S), true
		}
		return v.S, true
	case []Value:
		// []byte with %s / %q
		if verb == 's' || verb == 'q' || verb == 'x' {
			bs := make([]byte, len(v))
			for i, x := range v {
				t, ok := x.(*Term)
				if !ok || !t.IsConst() || t.w != 8 {
					return "", false
				}
				bs[i] = byte(t.val)
			}
			if verb == 'q' {
				return strconv.Quote(string(bs)), true
			}
			if verb == 'x' {
				return fmt.Sprintf("%x", bs), true
			}
			return string(bs), true
		}
		return "", false
	case nil:
		return "<nil>", true
	}
	return "", false
}

// miniSprintf formats with concrete operands; ok=false → opaque.
func (e *Engine) miniSprintf(format Str, args []Value, caller *frame) (string, bool) {
	if !format.Concrete() {
		return "", false
	}
	f := format.S
	var sb strings.Builder
	ai := 0
	for i := 0; i < len(f); i++ {
		c := f[i]
		if c != '%' {
			sb.WriteByte(c)
			continue
		}
		i++
		if i >= len(f) {
			return "", false
		}
		if f[i] == '%' {
			sb.WriteByte('%')
			continue
		}
		// flags/width
		start := i
		for i < len(f) && strings.IndexByte("+-# 0123456789.", f[i]) >= 0 {
			i++
		}
		if i >= len(f) {
			return "", false
		}
		spec := f[start:i]
		verb := f[i]
		if ai >= len(args) {
			return "", false
		}
		vb := verb
		if vb == 'd' || vb == 'v' || vb == 's' || vb == 'q' || vb == 'x' || vb == 'c' || vb == 't' || vb == 'T' {
			if vb == 'T' {
				return "", false
			}
			s, ok := e.formatOperand(args[ai], vb, caller)
			if !ok {
				return "", false
			}
			ai++
			// padding
			if spec != "" {
				zero := strings.HasPrefix(spec, "0")
				left := strings.HasPrefix(spec, "-")
				ws := strings.TrimLeft(spec, "0-+ #")
				if strings.Contains(ws, ".") {
					return "", false
				}
				if wv, err := strconv.Atoi(ws); err == nil {
					for len(s) < wv {
						if left {
							s = s + " "
						} else if zero {
							if strings.HasPrefix(s, "-") {
								s = "-0" + s[1:]
							} else {
								s = "0" + s
							}
						} else {
							s = " " + s
						}
					}
				}
			}
			sb.WriteString(s)
			continue
		}
		return "", false
	}
	return sb.String(), true
}

func (e *Engine) opaqueString(tag string) Str {
	// an opaque, concrete, unique string: comparing it with anything else is false, which is
	// what code inspecting error messages of unknown content observes.
	return Str{S: "\x00opaque:" + e.freshName(tag)}
}

func variadicArgs(v Value) []Value {
	if v == nil {
		return nil
	}
	sl, _ := v.([]Value)
	return sl
}

func inSprintf(e *Engine, caller *frame, fn *ssa.Function, args []Value) Value {
	s, ok := e.miniSprintf(args[0].(Str), variadicArgs(args[1]), caller)
	if !ok {
		return e.opaqueString("sprintf")
	}
	return Str{S: s}
}

func inSprint(e *Engine, caller *frame, fn *ssa.Function, args []Value) Value {
	var sb strings.Builder
	for i, a := range variadicArgs(args[0]) {
		s, ok := e.formatOperand(a, 'v', caller)
		if !ok {
			return e.opaqueString("sprint")
		}
		if i > 0 && fn.Name() == "Sprintln" {
			sb.WriteByte(' ')
		}
		sb.WriteString(s)
	}
	if fn.Name() == "Sprintln" {
		sb.WriteByte('\n')
	}
	return Str{S: sb.String()}
}

// inErrorf returns a fresh *fmt.wrapError-like error: we use *errors.errorString with the
// formatted (or opaque) message. %w wrapping is kept by using fmt.wrapError when present.
func inErrorf(e *Engine, caller *frame, fn *ssa.Function, args []Value) Value {
	format := args[0].(Str)
	va := variadicArgs(args[1])
	msg, ok := e.miniSprintf(Str{S: strings.ReplaceAll(format.S, "%w", "%v")}, va, caller)
	var ms Str
	if ok {
		ms = Str{S: msg}
	} else {
		ms = e.opaqueString("errorf")
	}
	// find %w operand
	var wrapped Value
	if format.Concrete() && strings.Contains(format.S, "%w") {
		idx := 0
		f := format.S
		for i := 0; i+1 < len(f); i++ {
			if f[i] == '%' {
				if f[i+1] == '%' {
					i++
					continue
				}
				j := i + 1
				for j < len(f) && strings.IndexByte("+-# 0123456789.", f[j]) >= 0 {
					j++
				}
				if j < len(f) && f[j] == 'w' && idx < len(va) {
					wrapped = va[idx]
				}
				idx++
				i = j
			}
		}
	}
	fmtPkg := fn.Pkg
	if wrapped != nil {
		if we, ok := fmtPkg.Members["wrapError"].(*ssa.Type); ok {
			cell := new(Value)
			*cell = Struct{ms, wrapped}
			return Iface{T: types.NewPointer(we.Type()), V: cell}
		}
	}
	errPkg := e.prog.ImportedPackage("errors")
	es := errPkg.Members["errorString"].(*ssa.Type)
	cell := new(Value)
	*cell = Struct{ms}
	return Iface{T: types.NewPointer(es.Type()), V: cell}
}

// ---- math

func inMath1(f func(float64) float64) intrinsic {
	return func(e *Engine, caller *frame, fn *ssa.Function, args []Value) Value {
		t := args[0].(*Term)
		if !t.IsConst() {
			panic(e.unsupported(fn.String() + " on symbolic float"))
		}
		return e.constFloat(64, f(f64(t)))
	}
}

func inMath2(f func(a, b float64) float64) intrinsic {
	return func(e *Engine, caller *frame, fn *ssa.Function, args []Value) Value {
		a, b := args[0].(*Term), args[1].(*Term)
		if !a.IsConst() || !b.IsConst() {
			panic(e.unsupported(fn.String() + " on symbolic float"))
		}
		return e.constFloat(64, f(f64(a), f64(b)))
	}
}

func inIsNaN(e *Engine, caller *frame, fn *ssa.Function, args []Value) Value {
	t := args[0].(*Term)
	exp := e.tt.Extract(t, 62, 52)
	man := e.tt.Extract(t, 51, 0)
	return e.tt.And(e.tt.Eq(exp, e.tt.Const(11, 0x7ff)), e.tt.Not(e.tt.Eq(man, e.tt.Const(52, 0))))
}

func inIsInf(e *Engine, caller *frame, fn *ssa.Function, args []Value) Value {
	t := args[0].(*Term)
	sign := args[1].(*Term)
	pinf := e.tt.Eq(t, e.tt.Const(64, 0x7ff0000000000000))
	ninf := e.tt.Eq(t, e.tt.Const(64, 0xfff0000000000000))
	sz := e.tt.Const(64, 0)
	return e.tt.Or(e.tt.And(e.tt.Sle(sz, sign), pinf), e.tt.And(e.tt.Sle(sign, sz), ninf))
}

func inBitsFn(w uint8, kind string) intrinsic {
	return func(e *Engine, caller *frame, fn *ssa.Function, args []Value) Value {
		x := args[0].(*Term)
		if x.w != w {
			x = e.tt.Resize(x, w, false)
		}
		tt := e.tt
		switch kind {
		case "len": // minimal bits to represent x
			r := tt.Const(64, 0)
			for i := uint8(0); i < w; i++ {
				bit := tt.Eq(tt.Extract(x, i, i), tt.Const(1, 1))
				r = tt.Ite(bit, tt.Const(64, uint64(i)+1), r)
			}
			return r
		case "lz":
			r := tt.Const(64, uint64(w))
			for i := uint8(0); i < w; i++ {
				bit := tt.Eq(tt.Extract(x, i, i), tt.Const(1, 1))
				r = tt.Ite(bit, tt.Const(64, uint64(w-1-i)), r)
			}
			if e.cfg.ConcretizeBits && !r.IsConst() {
				return tt.Const(64, e.Concretize(r, "leading zero count"))
			}
			return r
		case "tz":
			r := tt.Const(64, uint64(w))
			for i := int(w) - 1; i >= 0; i-- {
				bit := tt.Eq(tt.Extract(x, uint8(i), uint8(i)), tt.Const(1, 1))
				r = tt.Ite(bit, tt.Const(64, uint64(i)), r)
			}
			if e.cfg.ConcretizeBits && !r.IsConst() {
				return tt.Const(64, e.Concretize(r, "trailing zero count"))
			}
			return r
		case "pop":
			r := tt.Const(64, 0)
			for i := uint8(0); i < w; i++ {
				r = tt.Bin(OpAdd, r, tt.ZExt(tt.Extract(x, i, i), 64))
			}
			return r
		}
		panic("bad bits kind")
	}
}

// ---- bytes

func (e *Engine) bytesOf(v Value) []*Term {
	switch v := v.(type) {
	case Str:
		return e.strBytes(v)
	case []Value:
		out := make([]*Term, len(v))
		for i, x := range v {
			out[i] = x.(*Term)
		}
		return out
	}
	panic(e.unsupported(fmt.Sprintf("bytesOf %T", v)))
}

func inIndexByte(e *Engine, caller *frame, fn *ssa.Function, args []Value) Value {
	bs := e.bytesOf(args[0])
	c := args[1].(*Term)
	r := e.tt.Const(64, ^uint64(0))
	for i := len(bs) - 1; i >= 0; i-- {
		r = e.tt.Ite(e.tt.Eq(bs[i], c), e.tt.Const(64, uint64(i)), r)
	}
	return r
}

func inCountByte(e *Engine, caller *frame, fn *ssa.Function, args []Value) Value {
	bs := e.bytesOf(args[0])
	c := args[1].(*Term)
	r := e.tt.Const(64, 0)
	for _, b := range bs {
		r = e.tt.Bin(OpAdd, r, e.tt.Ite(e.tt.Eq(b, c), e.tt.Const(64, 1), e.tt.Const(64, 0)))
	}
	return r
}

func inBytesEqual(e *Engine, caller *frame, fn *ssa.Function, args []Value) Value {
	a, b := e.bytesOf(args[0]), e.bytesOf(args[1])
	return e.strEq(Str{B: nonNil(a)}, Str{B: nonNil(b)})
}

func nonNil(a []*Term) []*Term {
	if a == nil {
		return []*Term{}
	}
	return a
}

func inBytesCompare(e *Engine, caller *frame, fn *ssa.Function, args []Value) Value {
	a, b := Str{B: nonNil(e.bytesOf(args[0]))}, Str{B: nonNil(e.bytesOf(args[1]))}
	lt := e.strLess(a, b)
	eq := e.strEq(a, b)
	return e.tt.Ite(eq, e.tt.Const(64, 0), e.tt.Ite(lt, e.tt.Const(64, ^uint64(0)), e.tt.Const(64, 1)))
}

func inMakeNoZero(e *Engine, caller *frame, fn *ssa.Function, args []Value) Value {
	n := e.concretizeSize(args[0].(*Term), "MakeNoZero")
	if n > e.cfg.MaxAlloc {
		panic(boundErr{fmt.Sprintf("MakeNoZero(%d) exceeds alloc bound", n)})
	}
	sl := make([]Value, n)
	z := e.tt.Const(8, 0)
	for i := range sl {
		sl[i] = z
	}
	return sl
}

func inBuilderString(e *Engine, caller *frame, fn *ssa.Function, args []Value) Value {
	p := args[0].(*Value)
	st := (*p).(Struct) // {addr *Builder, buf []byte}
	buf := st[1].([]Value)
	ts := make([]*Term, len(buf))
	for i, v := range buf {
		ts[i] = v.(*Term)
	}
	return mkStrFromTerms(ts)
}

// ---- sort.Slice via insertion sort calling the real less (stable)

func inSortSlice(e *Engine, caller *frame, fn *ssa.Function, args []Value) Value {
	itf := args[0].(Iface)
	sl := itf.V.([]Value)
	less := args[1]
	for i := 1; i < len(sl); i++ {
		for j := i; j > 0; j-- {
			r := e.call(caller, less, []Value{e.tt.Const(64, uint64(j)), e.tt.Const(64, uint64(j-1))}, caller.pos).(*Term)
			if !e.Decide(r) {
				break
			}
			a, b := copyVal(sl[j]), copyVal(sl[j-1])
			e.store(&sl[j], b)
			e.store(&sl[j-1], a)
		}
	}
	return nil
}

func inSliceIsSorted(e *Engine, caller *frame, fn *ssa.Function, args []Value) Value {
	itf := args[0].(Iface)
	sl := itf.V.([]Value)
	less := args[1]
	for i := len(sl) - 1; i > 0; i-- {
		r := e.call(caller, less, []Value{e.tt.Const(64, uint64(i)), e.tt.Const(64, uint64(i-1))}, caller.pos).(*Term)
		if e.Decide(r) {
			return e.tt.False
		}
	}
	return e.tt.True
}

// inIndex: strings.Index / bytes.Index / bytealg.Index*: first occurrence, as an ite chain when
// any byte is symbolic.
func inIndex(e *Engine, caller *frame, fn *ssa.Function, args []Value) Value {
	s, sub := e.bytesOf(args[0]), e.bytesOf(args[1])
	n, m := len(s), len(sub)
	if m == 0 {
		return e.tt.Const(64, 0)
	}
	r := e.tt.Const(64, ^uint64(0))
	for i := n - m; i >= 0; i-- {
		match := e.tt.True
		for j := 0; j < m && !match.IsFalse(); j++ {
			match = e.tt.And(match, e.tt.Eq(s[i+j], sub[j]))
		}
		r = e.tt.Ite(match, e.tt.Const(64, uint64(i)), r)
	}
	return r
}

func inContains(e *Engine, caller *frame, fn *ssa.Function, args []Value) Value {
	idx := inIndex(e, caller, fn, args).(*Term)
	return e.tt.Not(e.tt.Eq(idx, e.tt.Const(64, ^uint64(0))))
}

func init() {
	for _, k := range []string{"strings.Index", "bytes.Index", "internal/bytealg.Index", "internal/bytealg.IndexString"} {
		intrinsics[k] = inIndex
	}
	intrinsics["strings.Contains"] = inContains
	intrinsics["bytes.Contains"] = inContains
}
