//go:build verif_harness

package models

// C12: line protocol parser and binary point form.

import (
	"bytes"
	"errors"
	"time"
)

func init() {
	vRegister("VerifHarness_C12_ParseNoPanic", VerifHarness_C12_ParseNoPanic)
	vRegister("VerifHarness_C12_TextRoundTrip", VerifHarness_C12_TextRoundTrip)
	vRegister("VerifHarness_C12_TagOrder", VerifHarness_C12_TagOrder)
	vRegister("VerifHarness_C12_LineLocality", VerifHarness_C12_LineLocality)
	vRegister("VerifHarness_C12_EscapePairs", VerifHarness_C12_EscapePairs)
	vRegister("VerifHarness_C12_BinaryRoundTrip", VerifHarness_C12_BinaryRoundTrip)
	vRegister("VerifHarness_C12_TimestampScaling", VerifHarness_C12_TimestampScaling)
}

var vC12Precisions = []string{"n", "u", "ms", "s", "m", "h"}

var errVFloatSyntax = errors.New("strconv.ParseFloat: invalid syntax")

// vParseFloatModel replaces models.parseFloatBytes in the engine (strconv.ParseFloat's decimal
// conversion is not encodable). It is exact on the verdict (error / no error) for inputs over the
// alphabet scanNumber lets through ([0-9.eE+-]) as long as the mantissa has at most two
// significant digits whenever the exponent has three or more digits; the value itself is not
// used by the parser.
func vParseFloatModel(b []byte, bitSize int) (float64, error) {
	i := 0
	if i < len(b) && (b[i] == '+' || b[i] == '-') {
		i++
	}
	digits := 0    // mantissa digits seen
	sig := 0       // first two significant digits as a number
	nsig := 0      // how many significant digits collected (<=2)
	intDigits := 0 // significant digits before the decimal point (may be negative via fracZeros)
	fracZeros := 0 // zeros directly after the point before the first significant digit
	sawDot := false
	moreSig := false
	for i < len(b) {
		c := b[i]
		if c >= '0' && c <= '9' {
			digits++
			if nsig == 0 && c == '0' {
				if sawDot {
					fracZeros++
				}
			} else {
				if nsig < 2 {
					sig = sig*10 + int(c-'0')
					nsig++
				} else if c != '0' {
					moreSig = true
				}
				if !sawDot {
					intDigits++
				}
			}
			i++
			continue
		}
		if c == '.' && !sawDot {
			sawDot = true
			i++
			continue
		}
		break
	}
	if digits == 0 {
		return 0, errVFloatSyntax
	}
	exp := 0
	expDigits := 0
	if i < len(b) && (b[i] == 'e' || b[i] == 'E') {
		i++
		neg := false
		if i < len(b) && (b[i] == '+' || b[i] == '-') {
			neg = b[i] == '-'
			i++
		}
		for i < len(b) && b[i] >= '0' && b[i] <= '9' {
			if exp < 100000 {
				exp = exp*10 + int(b[i]-'0')
			}
			expDigits++
			i++
		}
		if expDigits == 0 {
			return 0, errVFloatSyntax
		}
		if neg {
			exp = -exp
		}
	}
	if i != len(b) {
		return 0, errVFloatSyntax
	}
	if nsig == 0 {
		return 0, nil // zero never overflows
	}
	// decimal exponent of the leading significant digit
	lead := exp + intDigits - 1
	if intDigits == 0 {
		lead = exp - fracZeros - 1
	}
	if lead > 308 {
		return 0, errors.New("strconv.ParseFloat: value out of range")
	}
	if lead == 308 {
		two := sig
		if nsig == 1 {
			two = sig * 10
		}
		if two >= 18 {
			return 0, errors.New("strconv.ParseFloat: value out of range")
		}
		if two == 17 && moreSig {
			// 1.7x...e308 needs more precision than this model has
			vAssume(false)
		}
	}
	return 0, nil
}

func vC12Parse(buf []byte, prec string) (pts []Point, err error, panicked bool) {
	panicked = true
	func() {
		defer func() { recover() }()
		pts, err = ParsePointsWithPrecision(buf, time.Unix(0, 0), prec)
		panicked = false
	}()
	return
}

// Any byte string offered as line protocol: the parser returns (no panic), and every point it
// returns has a non-empty key and at least one field.
func VerifHarness_C12_ParseNoPanic() {
	maxN := 6
	if vThorough() {
		maxN = 7
	}
	n := vLen("len", 0, maxN)
	buf := vBytes("buf", n)
	prec := vC12Precisions[vChoice("precision", len(vC12Precisions))]
	pts, err, panicked := vC12Parse(buf, prec)
	vAssert(!panicked, "C12.parse-no-panic")
	if panicked {
		return
	}
	vObserve("npoints", len(pts))
	vObserve("err", err != nil)
	for _, p := range pts {
		vAssert(len(p.Key()) > 0, "C12.parsed-point-has-key")
		vAssert(len(p.(*point).fields) > 0, "C12.parsed-point-has-fields")
	}
	if len(pts) > 0 {
		vReach("C12.parse.accepted")
	} else {
		vReach("C12.parse.rejected-or-empty")
	}
}

// An accepted point written back as text and parsed again is the same point.
func VerifHarness_C12_TextRoundTrip() {
	maxN := 6
	if vThorough() {
		maxN = 7
	}
	n := vLen("len", 3, maxN)
	buf := vBytes("buf", n)
	for i := 0; i < n; i++ {
		vAssume(buf[i] != '\n')
	}
	pts, err, panicked := vC12Parse(buf, "n")
	vAssume(!panicked && err == nil && len(pts) == 1)
	p := pts[0].(*point)
	txt := p.AppendString(nil)
	pts2, err2, panicked2 := vC12Parse(txt, "n")
	vAssert(!panicked2, "C12.roundtrip-no-panic")
	vAssert(err2 == nil, "C12.roundtrip-reparse-ok")
	vAssert(len(pts2) == 1, "C12.roundtrip-one-point")
	if panicked2 || err2 != nil || len(pts2) != 1 {
		return
	}
	q := pts2[0].(*point)
	vAssert(bytes.Equal(p.key, q.key), "C12.roundtrip-key")
	vAssert(bytes.Equal(p.fields, q.fields), "C12.roundtrip-fields")
	vAssert(p.time.Equal(q.time), "C12.roundtrip-time")
	vObserve("key", p.key)
	vReach("C12.roundtrip.end")
}

// The binary point form used between nodes and in hinted handoff reproduces every accepted point.
func VerifHarness_C12_BinaryRoundTrip() {
	maxN := 6
	if vThorough() {
		maxN = 7
	}
	n := vLen("len", 3, maxN)
	buf := vBytes("buf", n)
	for i := 0; i < n; i++ {
		vAssume(buf[i] != '\n')
	}
	prec := vC12Precisions[vChoice("precision", 2)]
	pts, err, panicked := vC12Parse(buf, prec)
	vAssume(!panicked && err == nil && len(pts) == 1)
	p := pts[0].(*point)
	b, merr := p.MarshalBinary()
	vAssert(merr == nil, "C12.binary-marshal-ok")
	if merr != nil {
		return
	}
	q0, uerr := NewPointFromBytes(b)
	vAssert(uerr == nil && q0 != nil, "C12.binary-unmarshal-ok")
	if uerr != nil || q0 == nil {
		return
	}
	q := q0.(*point)
	vAssert(bytes.Equal(p.key, q.key), "C12.binary-roundtrip-key")
	vAssert(bytes.Equal(p.fields, q.fields), "C12.binary-roundtrip-fields")
	vAssert(p.time.Equal(q.time), "C12.binary-roundtrip-time")
	vAssert(p.HashID() == q.HashID(), "C12.binary-roundtrip-hash")
	vObserve("key", q.key)
	vReach("C12.binary.end")
}

// The canonical series key and its shard hash do not depend on the order tags were given in.
func VerifHarness_C12_TagOrder() {
	// logical tag keys/values (no backslash, no newline: a trailing backslash has no escaped form)
	k1, v1 := vBytes("k1", 1), vBytes("v1", vLen("v1len", 1, 2))
	// the second key may be two bytes long, so that one key can be a proper prefix of the other
	k2, v2 := vBytes("k2", vLen("k2len", 1, 2)), vBytes("v2", 1)
	for _, s := range [][]byte{k1, v1, k2, v2} {
		for _, c := range s {
			vAssume(c != '\\' && c != '\n')
		}
	}
	esc := func(dst, s []byte) []byte { // the documented tag escaping: , = and space
		for _, c := range s {
			if c == ',' || c == '=' || c == ' ' {
				dst = append(dst, '\\')
			}
			dst = append(dst, c)
		}
		return dst
	}
	mk := func(a, av, b, bv []byte) []byte {
		l := []byte("m,")
		l = esc(l, a)
		l = append(l, '=')
		l = esc(l, av)
		l = append(l, ',')
		l = esc(l, b)
		l = append(l, '=')
		l = esc(l, bv)
		l = append(l, " f=1"...)
		return l
	}
	l1 := mk(k1, v1, k2, v2)
	l2 := mk(k2, v2, k1, v1)
	p1, e1, pan1 := vC12Parse(l1, "n")
	p2, e2, pan2 := vC12Parse(l2, "n")
	vAssert(!pan1 && !pan2, "C12.tagorder-no-panic")
	if pan1 || pan2 {
		return
	}
	vAssert((e1 == nil) == (e2 == nil), "C12.tagorder-same-verdict")
	if e1 == nil && e2 == nil && len(p1) == 1 && len(p2) == 1 {
		vAssert(bytes.Equal(p1[0].Key(), p2[0].Key()), "C12.tagorder-same-key")
		vAssert(p1[0].HashID() == p2[0].HashID(), "C12.tagorder-same-hash")
		vReach("C12.tagorder.accepted")
	} else {
		vReach("C12.tagorder.rejected")
	}
}

// A malformed line does not affect the other lines of the request.
func VerifHarness_C12_LineLocality() {
	n := vLen("len", 0, 4)
	bad := vBytes("first", n)
	for i := 0; i < n; i++ {
		// the first line is a line: no newline, and neither a backslash nor a double quote, which
		// by the protocol's lexing rules can make a newline part of the line (escaped / quoted)
		vAssume(bad[i] != '\n' && bad[i] != '\\' && bad[i] != '"')
	}
	good := []byte("m,t=a f=1i 7")
	alone, errAlone, _ := vC12Parse(good, "n")
	vAssume(errAlone == nil && len(alone) == 1)
	both := append(append(append([]byte{}, bad...), '\n'), good...)
	pts, _, panicked := vC12Parse(both, "n")
	vAssert(!panicked, "C12.locality-no-panic")
	if panicked {
		return
	}
	vAssert(len(pts) >= 1, "C12.locality-good-line-accepted")
	if len(pts) >= 1 {
		last := pts[len(pts)-1].(*point)
		ref := alone[0].(*point)
		vAssert(bytes.Equal(last.key, ref.key) && bytes.Equal(last.fields, ref.fields) && last.time.Equal(ref.time), "C12.locality-good-line-unchanged")
	}
	vReach("C12.locality.end")
}

func VerifHarness_C12_EscapePairs() {
	in := vBytes("in", vLen("len", 0, 3))
	vAssert(bytes.Equal(unescapeMeasurement(EscapeMeasurement(append([]byte{}, in...))), in), "C12.escape-measurement-roundtrip")
	vAssert(bytes.Equal(unescapeTag(escapeTag(append([]byte{}, in...))), in), "C12.escape-tag-roundtrip")
	s := string(in)
	vAssert(unescapeStringField(EscapeStringField(s)) == s, "C12.escape-stringfield-roundtrip")
	vReach("C12.escape.end")
}

// Timestamp scaling: a timestamp given in a coarser precision is multiplied up to nanoseconds;
// it is accepted iff the exact product lies in the representable range, and then it is that
// product (no wrap-around is mistaken for a valid time).
func VerifHarness_C12_TimestampScaling() {
	prec := vC12Precisions[vChoice("precision", len(vC12Precisions))]
	mult := GetPrecisionMultiplier(prec)
	ts := vInt64("timestamp")
	t, err := SafeCalcTime(ts, prec)
	// exact bounds of the accepted range for this multiplier (concrete arithmetic)
	lo, hi := MinNanoTime/mult, MaxNanoTime/mult
	if lo*mult < MinNanoTime {
		lo++
	}
	inRange := vAnd(ts >= lo, ts <= hi)
	vAssert((err == nil) == inRange, "C12.scaled-timestamp-accepted-iff-representable")
	if err == nil {
		vAssert(t.UnixNano() == ts*mult, "C12.scaled-timestamp-is-the-exact-product")
	}
	vObserve("ok", err == nil)
	vReach("C12.scaling.end")
}
