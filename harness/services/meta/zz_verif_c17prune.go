//go:build verif_harness

package meta

// C17-K2: pruning of shard-group metadata (Data.PruneShardGroups, the last step of every retention
// tick) removes exactly the groups that were marked deleted longer ago than the grace period, in
// the policy they belong to, and leaves every other group of every policy where and as it was.

import (
	"time"
)

func init() {
	vRegister("VerifHarness_C17_PruneShardGroups", VerifHarness_C17_PruneShardGroups)
}

type vC17G struct {
	id        uint64
	deletedAt time.Time
	deleted   bool
	end       time.Time
}

func VerifHarness_C17_PruneShardGroups() {
	before := time.Now()
	// 1..2 databases (the first with 1..2 policies), 0..2 groups in the first policy and 0..1 in
	// the others; every group live or marked deleted 0..30 days ago (symbolic, to the nanosecond)
	d := &Data{}
	var model [][]vC17G // per policy, in visiting order
	next := uint64(0)
	nDB := 1
	if vThorough() {
		nDB = vLen("databases", 1, 2)
	}
	for i := 0; i < nDB; i++ {
		db := DatabaseInfo{Name: string(rune('a' + i))}
		nRP := 1
		if i == 0 {
			nRP = vLen("policies", 1, 2)
		}
		for j := 0; j < nRP; j++ {
			rp := RetentionPolicyInfo{Name: string(rune('p' + j)), ReplicaN: 1, Duration: time.Duration(j) * time.Hour, ShardGroupDuration: time.Hour}
			var gs []vC17G
			// the first policy visited holds up to two groups, the others up to one
			maxG := 1
			if i == 0 && j == 0 {
				maxG = 2
			}
			nG := vLen("groups", 0, maxG)
			for k := 0; k < nG; k++ {
				next++
				end := time.Unix(0, int64(next)*int64(time.Hour)).UTC()
				g := vC17G{id: next, end: end}
				sg := ShardGroupInfo{ID: next, StartTime: end.Add(-time.Hour), EndTime: end, Shards: []ShardInfo{{ID: next, Owners: []ShardOwner{{NodeID: 1}}}}}
				if vBool("markedDeleted") {
					ago := time.Duration(vRange("deletedFor", 0, int64(30*24*time.Hour)))
					g.deleted, g.deletedAt = true, before.Add(-ago)
					sg.DeletedAt = g.deletedAt
				}
				rp.ShardGroups = append(rp.ShardGroups, sg)
				gs = append(gs, g)
			}
			db.RetentionPolicies = append(db.RetentionPolicies, rp)
			model = append(model, gs)
		}
		d.Databases = append(d.Databases, db)
	}

	d.PruneShardGroups()

	after := time.Now()
	vAssume(after.Sub(before) < 2*time.Second)
	// the cut-off instant the call used lies between these two (it reads the clock once)
	cutoffLo, cutoffHi := before.Add(ShardGroupDeletedExpiration), after.Add(ShardGroupDeletedExpiration)
	pi := 0
	for i := range d.Databases {
		for j := range d.Databases[i].RetentionPolicies {
			got := d.Databases[i].RetentionPolicies[j].ShardGroups
			want := model[pi]
			pi++
			// walk the policy's original groups in order; survivors keep their order and content
			gi := 0
			for _, g := range want {
				surelyPruned := g.deleted && cutoffLo.After(g.deletedAt)
				surelyKept := !g.deleted || !cutoffHi.After(g.deletedAt)
				present := gi < len(got) && got[gi].ID == g.id
				if surelyPruned {
					vAssert(!present, "C17.prune-removes-groups-deleted-before-the-grace-period")
				}
				if surelyKept {
					vAssert(present, "C17.prune-keeps-every-other-group-in-its-policy")
				}
				if present {
					vAssert(got[gi].EndTime.Equal(g.end) && len(got[gi].Shards) == 1 && got[gi].Shards[0].ID == g.id, "C17.prune-leaves-kept-groups-unchanged")
					vAssert(got[gi].Deleted() == g.deleted, "C17.prune-leaves-kept-groups-unchanged")
					gi++
				}
			}
			vAssert(gi == len(got), "C17.prune-adds-no-groups-to-a-policy")
		}
	}
	vReach("C17.prune.end")
}
