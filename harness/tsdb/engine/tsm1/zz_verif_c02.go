//go:build verif_harness

package tsm1

// C02: the value-slice algebra behind last-write-wins reads (Deduplicate / Merge / Exclude /
// Include), for the typed IntegerValues and the interface-typed Values used by the cache.

func init() {
	vRegister("VerifHarness_C02_Deduplicate", VerifHarness_C02_Deduplicate)
	vRegister("VerifHarness_C02_Merge", VerifHarness_C02_Merge)
	vRegister("VerifHarness_C02_ExcludeInclude", VerifHarness_C02_ExcludeInclude)
}

type vC02P struct{ t, v int64 }

func vC02Points(tag string, lo, hi int) []vC02P {
	n := vLen(tag, lo, hi)
	ps := make([]vC02P, n)
	for i := range ps {
		ps[i] = vC02P{vInt64(tag + ".t"), vInt64(tag + ".v")}
	}
	return ps
}

func vC02Sorted(ps []vC02P) {
	for i := 1; i < len(ps); i++ {
		vAssume(ps[i-1].t < ps[i].t)
	}
}

func vC02Typed(ps []vC02P) IntegerValues {
	out := make(IntegerValues, len(ps))
	for i, p := range ps {
		out[i] = IntegerValue{unixnano: p.t, value: p.v}
	}
	return out
}

func vC02Generic(ps []vC02P) Values {
	out := make(Values, len(ps))
	for i, p := range ps {
		out[i] = NewIntegerValue(p.t, p.v)
	}
	return out
}

func vC02FromTyped(a IntegerValues) []vC02P {
	out := make([]vC02P, len(a))
	for i, x := range a {
		out[i] = vC02P{x.unixnano, x.value}
	}
	return out
}

func vC02FromGeneric(a Values) []vC02P {
	out := make([]vC02P, len(a))
	for i, x := range a {
		out[i] = vC02P{x.UnixNano(), x.Value().(int64)}
	}
	return out
}

func vC02AssertAscending(out []vC02P, label string) {
	for i := 1; i < len(out); i++ {
		vAssert(out[i-1].t < out[i].t, label)
	}
}

// contains reports (fork-free) whether out holds exactly (t, v).
func vC02Has(out []vC02P, t, v int64) bool {
	found := false
	for _, o := range out {
		found = vOr(found, vAnd(o.t == t, o.v == v))
	}
	return found
}

func vC02HasTime(out []vC02P, t int64) bool {
	found := false
	for _, o := range out {
		found = vOr(found, o.t == t)
	}
	return found
}

// Deduplicate: strictly ascending, one point per timestamp, the value of the last occurrence.
func VerifHarness_C02_Deduplicate() {
	max := 4
	if vThorough() {
		max = 5
	}
	in := vC02Points("in", 0, max)
	var out []vC02P
	if vBool("genericValues") {
		out = vC02FromGeneric(vC02Generic(in).Deduplicate())
	} else {
		out = vC02FromTyped(vC02Typed(in).Deduplicate())
	}
	vC02AssertAscending(out, "C02.dedup-strictly-ascending")
	for i := range in {
		last := in[i].v
		for k := i + 1; k < len(in); k++ {
			last = vIte64(in[k].t == in[i].t, in[k].v, last)
		}
		vAssert(vC02Has(out, in[i].t, last), "C02.dedup-keeps-last-write-per-timestamp")
	}
	for _, o := range out {
		vAssert(vC02HasTime(in, o.t), "C02.dedup-invents-nothing")
	}
	vObserve("n", len(out))
	vReach("C02.dedup.end")
}

// Merge(a, b): b wins on equal timestamps; union of timestamps; ascending.
func VerifHarness_C02_Merge() {
	max := 3
	if vThorough() {
		max = 4
	}
	a := vC02Points("a", 0, max)
	b := vC02Points("b", 0, max)
	vC02Sorted(a)
	vC02Sorted(b)
	var out []vC02P
	if vBool("genericValues") {
		out = vC02FromGeneric(vC02Generic(a).Merge(vC02Generic(b)))
	} else {
		out = vC02FromTyped(vC02Typed(a).Merge(vC02Typed(b)))
	}
	vC02AssertAscending(out, "C02.merge-strictly-ascending")
	for _, p := range b {
		vAssert(vC02Has(out, p.t, p.v), "C02.merge-newer-slice-wins")
	}
	for _, p := range a {
		vAssert(vOr(vC02HasTime(b, p.t), vC02Has(out, p.t, p.v)), "C02.merge-keeps-older-points-not-overwritten")
	}
	for _, o := range out {
		vAssert(vOr(vC02HasTime(a, o.t), vC02HasTime(b, o.t)), "C02.merge-invents-nothing")
	}
	vObserve("n", len(out))
	vReach("C02.merge.end")
}

// Exclude removes exactly [min,max] (inclusive); Include keeps exactly that range.
func VerifHarness_C02_ExcludeInclude() {
	max := 4
	if vThorough() {
		max = 5
	}
	a := vC02Points("a", 0, max)
	vC02Sorted(a)
	lo, hi := vInt64("min"), vInt64("max")
	include := vBool("include")
	var out []vC02P
	switch {
	case vBool("genericValues"):
		if include {
			out = vC02FromGeneric(vC02Generic(a).Include(lo, hi))
		} else {
			out = vC02FromGeneric(vC02Generic(a).Exclude(lo, hi))
		}
	default:
		if include {
			out = vC02FromTyped(vC02Typed(a).Include(lo, hi))
		} else {
			out = vC02FromTyped(vC02Typed(a).Exclude(lo, hi))
		}
	}
	vC02AssertAscending(out, "C02.range-op-keeps-order")
	for _, p := range a {
		inRange := vAnd(lo <= p.t, p.t <= hi)
		if include {
			vAssert(vC02Has(out, p.t, p.v) == inRange, "C02.include-keeps-exactly-the-inclusive-range")
		} else {
			vAssert(vC02Has(out, p.t, p.v) == !inRange, "C02.exclude-removes-exactly-the-inclusive-range")
		}
	}
	for _, o := range out {
		vAssert(vC02Has(a, o.t, o.v), "C02.range-op-invents-nothing")
	}
	vObserve("n", len(out))
	vReach("C02.range.end")
}
