package main

// Hash-consed term DAG over Bool and (_ BitVec w), w<=64, with constant folding and local
// rewrites, a concrete evaluator (for model validation) and an SMT-LIB2 printer (smt.go).

import (
	"fmt"
	"math/bits"
)

type Op uint8

const (
	OpConst Op = iota // bv or bool constant (w==0: bool, val 0/1)
	OpVar
	OpNot // bool
	OpAnd // bool
	OpOr  // bool
	OpIte
	OpEq
	OpUlt
	OpUle
	OpSlt
	OpSle
	OpAdd
	OpSub
	OpMul
	OpUDiv
	OpURem
	OpSDiv
	OpSRem
	OpBAnd
	OpBOr
	OpBXor
	OpShl
	OpLShr
	OpAShr
	OpBNot
	OpNeg
	OpExtract // val = hi<<8|lo
	OpZExt
	OpSExt
	OpConcat
)

var opNames = [...]string{"const", "var", "not", "and", "or", "ite", "=", "bvult", "bvule", "bvslt", "bvsle",
	"bvadd", "bvsub", "bvmul", "bvudiv", "bvurem", "bvsdiv", "bvsrem", "bvand", "bvor", "bvxor", "bvshl", "bvlshr", "bvashr",
	"bvnot", "bvneg", "extract", "zext", "sext", "concat"}

type Term struct {
	op      Op
	w       uint8 // 0 = Bool
	a, b, c *Term
	val     uint64
	name    string
	id      uint32
	depth   uint32
	sv      *Term // the single variable occurring in the term (nil if none or several)
	mv      bool  // more than one distinct variable occurs
	size    uint32
}

type termKey struct {
	op      Op
	w       uint8
	a, b, c uint32
	val     uint64
	name    string
}

// TermTable is per worker (no locking).
type TermTable struct {
	m      map[termKey]*Term
	next   uint32
	consts [65]map[uint64]*Term
	True   *Term
	False  *Term
}

func NewTermTable() *TermTable {
	tt := &TermTable{m: make(map[termKey]*Term, 1<<14), next: 1}
	for i := range tt.consts {
		tt.consts[i] = make(map[uint64]*Term)
	}
	tt.True = tt.mk(OpConst, 0, nil, nil, nil, 1, "")
	tt.False = tt.mk(OpConst, 0, nil, nil, nil, 0, "")
	return tt
}

func tid(t *Term) uint32 {
	if t == nil {
		return 0
	}
	return t.id
}

func (tt *TermTable) mk(op Op, w uint8, a, b, c *Term, val uint64, name string) *Term {
	k := termKey{op, w, tid(a), tid(b), tid(c), val, name}
	if t, ok := tt.m[k]; ok {
		return t
	}
	d := uint32(0)
	for _, x := range []*Term{a, b, c} {
		if x != nil && x.depth+1 > d {
			d = x.depth + 1
		}
	}
	t := &Term{op: op, w: w, a: a, b: b, c: c, val: val, name: name, id: tt.next, depth: d}
	if op == OpVar {
		t.sv = t
	}
	t.size = 1
	for _, x := range []*Term{a, b, c} {
		if x == nil {
			continue
		}
		t.size += x.size
		if x.mv {
			t.mv = true
		} else if x.sv != nil {
			if t.sv == nil {
				t.sv = x.sv
			} else if t.sv != x.sv {
				t.mv = true
			}
		}
	}
	if t.mv {
		t.sv = nil
	}
	if t.size > 1<<20 {
		t.size = 1 << 20
	}
	tt.next++
	tt.m[k] = t
	return t
}

func mask(w uint8) uint64 {
	if w >= 64 {
		return ^uint64(0)
	}
	return (uint64(1) << w) - 1
}

func sext64(v uint64, w uint8) int64 {
	if w >= 64 {
		return int64(v)
	}
	sh := 64 - uint(w)
	return int64(v<<sh) >> sh
}

func (t *Term) IsConst() bool { return t.op == OpConst }
func (t *Term) IsBool() bool  { return t.w == 0 }
func (t *Term) IsTrue() bool  { return t.op == OpConst && t.w == 0 && t.val == 1 }
func (t *Term) IsFalse() bool { return t.op == OpConst && t.w == 0 && t.val == 0 }
func (t *Term) U() uint64     { return t.val }
func (t *Term) S() int64      { return sext64(t.val, t.w) }

func (tt *TermTable) Const(w uint8, v uint64) *Term {
	if w == 0 {
		if v != 0 {
			return tt.True
		}
		return tt.False
	}
	v &= mask(w)
	if t, ok := tt.consts[w][v]; ok {
		return t
	}
	t := tt.mk(OpConst, w, nil, nil, nil, v, "")
	tt.consts[w][v] = t
	return t
}

func (tt *TermTable) Bool(b bool) *Term {
	if b {
		return tt.True
	}
	return tt.False
}

func (tt *TermTable) Var(name string, w uint8) *Term {
	return tt.mk(OpVar, w, nil, nil, nil, 0, name)
}

func (tt *TermTable) Not(a *Term) *Term {
	if a.w != 0 {
		panic("Not on non-bool")
	}
	if a.op == OpConst {
		return tt.Bool(a.val == 0)
	}
	if a.op == OpNot {
		return a.a
	}
	return tt.mk(OpNot, 0, a, nil, nil, 0, "")
}

func (tt *TermTable) And(a, b *Term) *Term {
	if a.IsFalse() || b.IsFalse() {
		return tt.False
	}
	if a.IsTrue() {
		return b
	}
	if b.IsTrue() {
		return a
	}
	if a == b {
		return a
	}
	if (a.op == OpNot && a.a == b) || (b.op == OpNot && b.a == a) {
		return tt.False
	}
	if a.id > b.id {
		a, b = b, a
	}
	return tt.mk(OpAnd, 0, a, b, nil, 0, "")
}

func (tt *TermTable) Or(a, b *Term) *Term {
	if a.IsTrue() || b.IsTrue() {
		return tt.True
	}
	if a.IsFalse() {
		return b
	}
	if b.IsFalse() {
		return a
	}
	if a == b {
		return a
	}
	if (a.op == OpNot && a.a == b) || (b.op == OpNot && b.a == a) {
		return tt.True
	}
	if a.id > b.id {
		a, b = b, a
	}
	return tt.mk(OpOr, 0, a, b, nil, 0, "")
}

func (tt *TermTable) Implies(a, b *Term) *Term { return tt.Or(tt.Not(a), b) }

func (tt *TermTable) Ite(c, a, b *Term) *Term {
	if c.IsTrue() {
		return a
	}
	if c.IsFalse() {
		return b
	}
	if a == b {
		return a
	}
	if a.w != b.w {
		panic(fmt.Sprintf("Ite width mismatch %d %d", a.w, b.w))
	}
	if a.w == 0 {
		if a.IsTrue() && b.IsFalse() {
			return c
		}
		if a.IsFalse() && b.IsTrue() {
			return tt.Not(c)
		}
		if a.IsTrue() {
			return tt.Or(c, b)
		}
		if a.IsFalse() {
			return tt.And(tt.Not(c), b)
		}
		if b.IsTrue() {
			return tt.Or(tt.Not(c), a)
		}
		if b.IsFalse() {
			return tt.And(c, a)
		}
	}
	if c.op == OpNot {
		return tt.Ite(c.a, b, a)
	}
	return tt.mk(OpIte, a.w, c, a, b, 0, "")
}

func (tt *TermTable) Eq(a, b *Term) *Term {
	if a.w != b.w {
		panic(fmt.Sprintf("Eq width mismatch %d %d", a.w, b.w))
	}
	if a == b {
		return tt.True
	}
	if a.op == OpConst && b.op == OpConst {
		return tt.Bool(a.val == b.val)
	}
	if a.w == 0 {
		if a.op == OpConst {
			a, b = b, a
		}
		if b.IsTrue() {
			return a
		}
		if b.IsFalse() {
			return tt.Not(a)
		}
	}
	// eq(ite(c,k1,k2),k3) with constants
	if b.op == OpConst && a.op == OpIte {
		return tt.Ite(a.a, tt.Eq(a.b, b), tt.Eq(a.c, b))
	}
	if a.op == OpConst && b.op == OpIte {
		return tt.Ite(b.a, tt.Eq(b.b, a), tt.Eq(b.c, a))
	}
	// eq(zext(x), const)
	if b.op == OpConst && a.op == OpZExt {
		if b.val > mask(a.a.w) {
			return tt.False
		}
		return tt.Eq(a.a, tt.Const(a.a.w, b.val))
	}
	if a.op == OpConst && b.op == OpZExt {
		return tt.Eq(b, a)
	}
	if a.id > b.id {
		a, b = b, a
	}
	return tt.mk(OpEq, 0, a, b, nil, 0, "")
}

func (tt *TermTable) cmp(op Op, a, b *Term) *Term {
	if a.w != b.w {
		panic(fmt.Sprintf("cmp width mismatch %d %d", a.w, b.w))
	}
	if a.op == OpConst && b.op == OpConst {
		switch op {
		case OpUlt:
			return tt.Bool(a.val < b.val)
		case OpUle:
			return tt.Bool(a.val <= b.val)
		case OpSlt:
			return tt.Bool(a.S() < b.S())
		case OpSle:
			return tt.Bool(a.S() <= b.S())
		}
	}
	if a == b {
		return tt.Bool(op == OpUle || op == OpSle)
	}
	switch op {
	case OpUlt:
		if b.op == OpConst && b.val == 0 {
			return tt.False
		}
		if a.op == OpConst && a.val == mask(a.w) {
			return tt.False
		}
		// zext(x) <u const beyond range
		if a.op == OpZExt && b.op == OpConst && b.val > mask(a.a.w) {
			return tt.True
		}
	case OpUle:
		if a.op == OpConst && a.val == 0 {
			return tt.True
		}
		if b.op == OpConst && b.val == mask(b.w) {
			return tt.True
		}
		if a.op == OpZExt && b.op == OpConst && b.val >= mask(a.a.w) {
			return tt.True
		}
	case OpSlt:
		if a.op == OpZExt && b.op == OpConst && b.S() > int64(mask(a.a.w)) {
			return tt.True
		}
		if a.op == OpZExt && b.op == OpConst && b.S() <= 0 {
			return tt.False
		}
		if b.op == OpZExt && a.op == OpConst && a.S() < 0 {
			return tt.True
		}
	case OpSle:
		if a.op == OpZExt && b.op == OpConst && b.S() >= int64(mask(a.a.w)) {
			return tt.True
		}
		if a.op == OpZExt && b.op == OpConst && b.S() < 0 {
			return tt.False
		}
		if b.op == OpZExt && a.op == OpConst && a.S() <= 0 {
			return tt.True
		}
	}
	return tt.mk(op, 0, a, b, nil, 0, "")
}

func (tt *TermTable) Ult(a, b *Term) *Term { return tt.cmp(OpUlt, a, b) }
func (tt *TermTable) Ule(a, b *Term) *Term { return tt.cmp(OpUle, a, b) }
func (tt *TermTable) Slt(a, b *Term) *Term { return tt.cmp(OpSlt, a, b) }
func (tt *TermTable) Sle(a, b *Term) *Term { return tt.cmp(OpSle, a, b) }

func foldBin(op Op, w uint8, x, y uint64) (uint64, bool) {
	m := mask(w)
	switch op {
	case OpAdd:
		return (x + y) & m, true
	case OpSub:
		return (x - y) & m, true
	case OpMul:
		return (x * y) & m, true
	case OpUDiv:
		if y == 0 {
			return m, true // SMT-LIB semantics
		}
		return x / y, true
	case OpURem:
		if y == 0 {
			return x, true
		}
		return x % y, true
	case OpSDiv:
		sx, sy := sext64(x, w), sext64(y, w)
		if sy == 0 {
			if sx >= 0 {
				return m, true
			}
			return 1, true
		}
		if sy == -1 {
			return uint64(-sx) & m, true
		}
		return uint64(sx/sy) & m, true
	case OpSRem:
		sx, sy := sext64(x, w), sext64(y, w)
		if sy == 0 {
			return x, true
		}
		if sy == -1 {
			return 0, true
		}
		return uint64(sx%sy) & m, true
	case OpBAnd:
		return x & y, true
	case OpBOr:
		return x | y, true
	case OpBXor:
		return x ^ y, true
	case OpShl:
		if y >= uint64(w) {
			return 0, true
		}
		return (x << y) & m, true
	case OpLShr:
		if y >= uint64(w) {
			return 0, true
		}
		return x >> y, true
	case OpAShr:
		sx := sext64(x, w)
		if y >= uint64(w) {
			if sx < 0 {
				return m, true
			}
			return 0, true
		}
		return uint64(sx>>y) & m, true
	}
	return 0, false
}

func (tt *TermTable) Bin(op Op, a, b *Term) *Term {
	if a.w != b.w || a.w == 0 {
		panic(fmt.Sprintf("Bin %s width mismatch %d %d", opNames[op], a.w, b.w))
	}
	w := a.w
	if a.op == OpConst && b.op == OpConst {
		v, _ := foldBin(op, w, a.val, b.val)
		return tt.Const(w, v)
	}
	switch op {
	case OpAdd:
		if a.op == OpConst && a.val == 0 {
			return b
		}
		if b.op == OpConst && b.val == 0 {
			return a
		}
		// (x + c1) + c2
		if b.op == OpConst && a.op == OpAdd && a.b.op == OpConst {
			return tt.Bin(OpAdd, a.a, tt.Const(w, a.b.val+b.val))
		}
		if a.op == OpConst {
			a, b = b, a
		}
	case OpSub:
		if b.op == OpConst && b.val == 0 {
			return a
		}
		if a == b {
			return tt.Const(w, 0)
		}
		if b.op == OpConst {
			return tt.Bin(OpAdd, a, tt.Const(w, -b.val))
		}
		// (x + y) - y
		if a.op == OpAdd && a.b == b {
			return a.a
		}
		if a.op == OpAdd && a.a == b {
			return a.b
		}
	case OpMul:
		if a.op == OpConst {
			a, b = b, a
		}
		if b.op == OpConst {
			if b.val == 0 {
				return b
			}
			if b.val == 1 {
				return a
			}
		}
	case OpUDiv, OpSDiv:
		if b.op == OpConst && b.val == 1 {
			return a
		}
		// udiv(zext(x), c) at the width of x (a zero-extended dividend is non-negative, so the
		// signed quotient by a positive constant is the same)
		if a.op == OpZExt && b.op == OpConst && b.val != 0 && (op == OpUDiv || (a.a.w < w && b.val>>(w-1) == 0)) {
			if b.val > mask(a.a.w) {
				return tt.Const(w, 0)
			}
			return tt.ZExt(tt.Bin(OpUDiv, a.a, tt.Const(a.a.w, b.val)), w)
		}
	case OpURem:
		if a.op == OpZExt && b.op == OpConst && b.val != 0 {
			if b.val > mask(a.a.w) {
				return a
			}
			return tt.ZExt(tt.Bin(OpURem, a.a, tt.Const(a.a.w, b.val)), w)
		}
	case OpBAnd:
		if a.op == OpConst {
			a, b = b, a
		}
		if b.op == OpConst {
			if b.val == 0 {
				return b
			}
			if b.val == mask(w) {
				return a
			}
			// zext(x) & mask covering x
			if a.op == OpZExt && b.val&mask(a.a.w) == mask(a.a.w) {
				return a
			}
			// low mask -> zext(extract)
			if b.val&(b.val+1) == 0 { // 2^k-1
				k := uint8(bits.Len64(b.val))
				return tt.ZExt(tt.Extract(a, k-1, 0), w)
			}
		}
		if a == b {
			return a
		}
	case OpBOr:
		if a.op == OpConst {
			a, b = b, a
		}
		if b.op == OpConst {
			if b.val == 0 {
				return a
			}
			if b.val == mask(w) {
				return b
			}
		}
		if a == b {
			return a
		}
		if m := tt.mergeOr(a, b); m != nil {
			return m
		}
	case OpBXor:
		if a.op == OpConst {
			a, b = b, a
		}
		if b.op == OpConst && b.val == 0 {
			return a
		}
		if a == b {
			return tt.Const(w, 0)
		}
		// x ^ (x ^ y) = y
		if b.op == OpBXor {
			if b.a == a {
				return b.b
			}
			if b.b == a {
				return b.a
			}
		}
		if a.op == OpBXor {
			if a.a == b {
				return a.b
			}
			if a.b == b {
				return a.a
			}
			// (x ^ c1) ^ c2
			if b.op == OpConst && a.b.op == OpConst {
				return tt.Bin(OpBXor, a.a, tt.Const(w, a.b.val^b.val))
			}
		}
	case OpShl:
		if b.op == OpConst {
			if b.val == 0 {
				return a
			}
			if b.val >= uint64(w) {
				return tt.Const(w, 0)
			}
			// shl by constant k = concat(extract(a, w-1-k, 0), 0_k)
			k := uint8(b.val)
			return tt.Concat(tt.Extract(a, w-1-k, 0), tt.Const(k, 0))
		}
		if a.op == OpConst && a.val == 0 {
			return a
		}
	case OpLShr:
		if b.op == OpConst {
			if b.val == 0 {
				return a
			}
			if b.val >= uint64(w) {
				return tt.Const(w, 0)
			}
			k := uint8(b.val)
			return tt.ZExt(tt.Extract(a, w-1, k), w)
		}
		if a.op == OpConst && a.val == 0 {
			return a
		}
	case OpAShr:
		if b.op == OpConst {
			if b.val == 0 {
				return a
			}
			k := b.val
			if k >= uint64(w) {
				k = uint64(w) - 1
			}
			return tt.SExt(tt.Extract(a, w-1, uint8(k)), w)
		}
	}
	return tt.mk(op, w, a, b, nil, 0, "")
}

func (tt *TermTable) BNot(a *Term) *Term {
	if a.op == OpConst {
		return tt.Const(a.w, ^a.val)
	}
	if a.op == OpBNot {
		return a.a
	}
	return tt.mk(OpBNot, a.w, a, nil, nil, 0, "")
}

func (tt *TermTable) Neg(a *Term) *Term {
	if a.op == OpConst {
		return tt.Const(a.w, -a.val)
	}
	if a.op == OpNeg {
		return a.a
	}
	return tt.mk(OpNeg, a.w, a, nil, nil, 0, "")
}

func (tt *TermTable) Extract(a *Term, hi, lo uint8) *Term {
	if hi < lo || hi >= a.w {
		panic(fmt.Sprintf("bad extract [%d:%d] of w=%d", hi, lo, a.w))
	}
	nw := hi - lo + 1
	if nw == a.w {
		return a
	}
	switch a.op {
	case OpConst:
		return tt.Const(nw, a.val>>lo)
	case OpExtract:
		ilo := uint8(a.val & 0xff)
		return tt.Extract(a.a, hi+ilo, lo+ilo)
	case OpZExt:
		iw := a.a.w
		if hi < iw {
			return tt.Extract(a.a, hi, lo)
		}
		if lo >= iw {
			return tt.Const(nw, 0)
		}
		return tt.ZExt(tt.Extract(a.a, iw-1, lo), nw)
	case OpSExt:
		iw := a.a.w
		if hi < iw {
			return tt.Extract(a.a, hi, lo)
		}
		if lo < iw {
			return tt.SExt(tt.Extract(a.a, iw-1, lo), nw)
		}
	case OpConcat:
		lw := a.b.w // low part width
		if hi < lw {
			return tt.Extract(a.b, hi, lo)
		}
		if lo >= lw {
			return tt.Extract(a.a, hi-lw, lo-lw)
		}
		return tt.Concat(tt.Extract(a.a, hi-lw, 0), tt.Extract(a.b, lw-1, lo))
	case OpBAnd, OpBOr, OpBXor:
		return tt.Bin(a.op, tt.Extract(a.a, hi, lo), tt.Extract(a.b, hi, lo))
	case OpBNot:
		return tt.BNot(tt.Extract(a.a, hi, lo))
	case OpIte:
		if a.b.op == OpConst || a.c.op == OpConst {
			return tt.Ite(a.a, tt.Extract(a.b, hi, lo), tt.Extract(a.c, hi, lo))
		}
	case OpAdd, OpSub, OpMul:
		if lo == 0 {
			return tt.Bin(a.op, tt.Extract(a.a, hi, 0), tt.Extract(a.b, hi, 0))
		}
	}
	return tt.mk(OpExtract, nw, a, nil, nil, uint64(hi)<<8|uint64(lo), "")
}

func (tt *TermTable) ZExt(a *Term, w uint8) *Term {
	if w == a.w {
		return a
	}
	if w < a.w {
		panic("ZExt narrowing")
	}
	if a.op == OpConst {
		return tt.Const(w, a.val)
	}
	if a.op == OpZExt {
		return tt.ZExt(a.a, w)
	}
	return tt.mk(OpZExt, w, a, nil, nil, 0, "")
}

func (tt *TermTable) SExt(a *Term, w uint8) *Term {
	if w == a.w {
		return a
	}
	if w < a.w {
		panic("SExt narrowing")
	}
	if a.op == OpConst {
		return tt.Const(w, uint64(a.S()))
	}
	if a.op == OpSExt {
		return tt.SExt(a.a, w)
	}
	if a.op == OpZExt {
		return tt.ZExt(a.a, w)
	}
	return tt.mk(OpSExt, w, a, nil, nil, 0, "")
}

// Concat: a is the high part.
func (tt *TermTable) Concat(a, b *Term) *Term {
	w := a.w + b.w
	if w > 64 {
		panic("Concat > 64 bits")
	}
	if a.op == OpConst && b.op == OpConst {
		return tt.Const(w, a.val<<b.w|b.val)
	}
	if a.op == OpConst && a.val == 0 {
		return tt.ZExt(b, w)
	}
	// concat(extract(x,h,m+1), extract(x,m,l)) = extract(x,h,l)
	if a.op == OpExtract && b.op == OpExtract && a.a == b.a {
		alo := uint8(a.val & 0xff)
		bhi := uint8(b.val >> 8)
		if alo == bhi+1 {
			return tt.Extract(a.a, uint8(a.val>>8), uint8(b.val&0xff))
		}
	}
	return tt.mk(OpConcat, w, a, b, nil, 0, "")
}

// Resize converts a bv to width w (truncate, or extend per signed).
func (tt *TermTable) Resize(a *Term, w uint8, signed bool) *Term {
	if a.w == w {
		return a
	}
	if w < a.w {
		return tt.Extract(a, w-1, 0)
	}
	if signed {
		return tt.SExt(a, w)
	}
	return tt.ZExt(a, w)
}

// Eval evaluates t under assignment env (var name -> value); missing vars are 0.
func Eval(t *Term, env map[string]uint64, memo map[*Term]uint64) uint64 {
	if t.op == OpConst {
		return t.val
	}
	if v, ok := memo[t]; ok {
		return v
	}
	var r uint64
	switch t.op {
	case OpVar:
		r = env[t.name] & mask(t.w)
		if t.w == 0 {
			r = env[t.name] & 1
		}
	case OpNot:
		r = 1 - Eval(t.a, env, memo)
	case OpAnd:
		r = Eval(t.a, env, memo)
		if r != 0 {
			r = Eval(t.b, env, memo)
		}
	case OpOr:
		r = Eval(t.a, env, memo)
		if r == 0 {
			r = Eval(t.b, env, memo)
		}
	case OpIte:
		if Eval(t.a, env, memo) != 0 {
			r = Eval(t.b, env, memo)
		} else {
			r = Eval(t.c, env, memo)
		}
	case OpEq:
		r = b2u(Eval(t.a, env, memo) == Eval(t.b, env, memo))
	case OpUlt:
		r = b2u(Eval(t.a, env, memo) < Eval(t.b, env, memo))
	case OpUle:
		r = b2u(Eval(t.a, env, memo) <= Eval(t.b, env, memo))
	case OpSlt:
		r = b2u(sext64(Eval(t.a, env, memo), t.a.w) < sext64(Eval(t.b, env, memo), t.a.w))
	case OpSle:
		r = b2u(sext64(Eval(t.a, env, memo), t.a.w) <= sext64(Eval(t.b, env, memo), t.a.w))
	case OpBNot:
		r = ^Eval(t.a, env, memo) & mask(t.w)
	case OpNeg:
		r = -Eval(t.a, env, memo) & mask(t.w)
	case OpExtract:
		hi, lo := uint8(t.val>>8), uint8(t.val&0xff)
		r = (Eval(t.a, env, memo) >> lo) & mask(hi-lo+1)
	case OpZExt:
		r = Eval(t.a, env, memo)
	case OpSExt:
		r = uint64(sext64(Eval(t.a, env, memo), t.a.w)) & mask(t.w)
	case OpConcat:
		r = Eval(t.a, env, memo)<<t.b.w | Eval(t.b, env, memo)
	default:
		r, _ = foldBin(t.op, t.w, Eval(t.a, env, memo), Eval(t.b, env, memo))
	}
	memo[t] = r
	return r
}

func b2u(b bool) uint64 {
	if b {
		return 1
	}
	return 0
}

// Vars collects the variables of t into set.
func Vars(t *Term, seen map[*Term]bool, out *[]*Term) {
	if t == nil || seen[t] {
		return
	}
	seen[t] = true
	if t.op == OpVar {
		*out = append(*out, t)
		return
	}
	Vars(t.a, seen, out)
	Vars(t.b, seen, out)
	Vars(t.c, seen, out)
}

func (t *Term) String() string {
	if t == nil {
		return "<nil>"
	}
	switch t.op {
	case OpConst:
		if t.w == 0 {
			if t.val != 0 {
				return "true"
			}
			return "false"
		}
		return fmt.Sprintf("%d:%d", t.val, t.w)
	case OpVar:
		return t.name
	}
	if t.depth > 6 {
		return fmt.Sprintf("(%s#%d ...)", opNames[t.op], t.id)
	}
	s := "(" + opNames[t.op]
	if t.op == OpExtract {
		s += fmt.Sprintf("[%d:%d]", t.val>>8, t.val&0xff)
	}
	if t.op == OpZExt || t.op == OpSExt {
		s += fmt.Sprintf("%d", t.w)
	}
	for _, x := range []*Term{t.a, t.b, t.c} {
		if x != nil {
			s += " " + x.String()
		}
	}
	return s + ")"
}
