//go:build verif_harness

package tsm1

// C13: block codecs round-trip bit for bit.

import (
	"math"
)

func init() {
	vRegister("VerifHarness_C13_IntegerBatch", VerifHarness_C13_IntegerBatch)
	vRegister("VerifHarness_C13_IntegerIter", VerifHarness_C13_IntegerIter)
	vRegister("VerifHarness_C13_IntegerCross", VerifHarness_C13_IntegerCross)
	vRegister("VerifHarness_C13_ZigZag", VerifHarness_C13_ZigZag)
	vRegister("VerifHarness_C13_Boolean", VerifHarness_C13_Boolean)
	vRegister("VerifHarness_C13_String", VerifHarness_C13_String)
	vRegister("VerifHarness_C13_Float", VerifHarness_C13_Float)
	vRegister("VerifHarness_C13_UnsignedBatch", VerifHarness_C13_UnsignedBatch)
	vRegister("VerifHarness_C13_Timestamps", VerifHarness_C13_Timestamps)
}

func vC13Ints(maxQuick, maxThorough int) []int64 {
	max := maxQuick
	if vThorough() {
		max = maxThorough
	}
	n := vLen("n", 1, max)
	vals := make([]int64, n)
	for i := range vals {
		vals[i] = vInt64("v")
	}
	return vals
}

func VerifHarness_C13_ZigZag() {
	x := vInt64("x")
	vAssert(ZigZagDecode(ZigZagEncode(x)) == x, "C13.zigzag-roundtrip")
	u := vUint64("u")
	vAssert(ZigZagEncode(ZigZagDecode(u)) == u, "C13.zigzag-roundtrip-inverse")
	vObserve("zz", ZigZagEncode(x))
	vReach("C13.zigzag.end")
}

// IntegerArrayEncodeAll / IntegerArrayDecodeAll: every sequence of 1..4 int64 values (RLE,
// simple8b and uncompressed schemes are chosen by the encoder according to the deltas).
func VerifHarness_C13_IntegerBatch() {
	vals := vC13Ints(3, 4)
	src := append([]int64(nil), vals...)
	b, err := IntegerArrayEncodeAll(src, nil)
	vAssert(err == nil, "C13.int-batch-encode-ok")
	if err != nil {
		return
	}
	vObserve("scheme", b[0]>>4)
	got, err := IntegerArrayDecodeAll(b, nil)
	vAssert(err == nil, "C13.int-batch-decode-ok")
	vAssert(len(got) == len(vals), "C13.int-batch-count")
	for i := 0; i < len(vals) && i < len(got); i++ {
		vAssert(got[i] == vals[i], "C13.int-batch-roundtrip")
	}
	vReach("C13.int-batch.end")
}

func VerifHarness_C13_UnsignedBatch() {
	n := vLen("n", 1, 3)
	vals := make([]uint64, n)
	for i := range vals {
		vals[i] = vUint64("v")
	}
	src := append([]uint64(nil), vals...)
	b, err := UnsignedArrayEncodeAll(src, nil)
	vAssert(err == nil, "C13.uint-batch-encode-ok")
	if err != nil {
		return
	}
	got, err := UnsignedArrayDecodeAll(b, nil)
	vAssert(err == nil, "C13.uint-batch-decode-ok")
	vAssert(len(got) == len(vals), "C13.uint-batch-count")
	for i := 0; i < len(vals) && i < len(got); i++ {
		vAssert(got[i] == vals[i], "C13.uint-batch-roundtrip")
	}
	vReach("C13.uint-batch.end")
}

// Iterator pair IntegerEncoder / IntegerDecoder.
func VerifHarness_C13_IntegerIter() {
	vals := vC13Ints(3, 4)
	enc := NewIntegerEncoder(len(vals))
	for _, v := range vals {
		enc.Write(v)
	}
	b, err := enc.Bytes()
	vAssert(err == nil, "C13.int-iter-encode-ok")
	if err != nil {
		return
	}
	vObserve("scheme", b[0]>>4)
	var dec IntegerDecoder
	dec.SetBytes(b)
	i := 0
	for dec.Next() {
		if i < len(vals) {
			vAssert(dec.Read() == vals[i], "C13.int-iter-roundtrip")
		}
		i++
		if i > len(vals)+1 {
			break
		}
	}
	vAssert(dec.Error() == nil, "C13.int-iter-decode-ok")
	vAssert(i == len(vals), "C13.int-iter-count")
	vReach("C13.int-iter.end")
}

// Blocks written by the iterator encoder are read by the batch decoder (compaction reads what
// the cache snapshot wrote) and vice versa.
func VerifHarness_C13_IntegerCross() {
	vals := vC13Ints(2, 3)
	enc := NewIntegerEncoder(len(vals))
	for _, v := range vals {
		enc.Write(v)
	}
	b, err := enc.Bytes()
	vAssume(err == nil)
	got, err := IntegerArrayDecodeAll(b, nil)
	vAssert(err == nil, "C13.int-cross-decode-ok")
	vAssert(len(got) == len(vals), "C13.int-cross-count")
	for i := 0; i < len(vals) && i < len(got); i++ {
		vAssert(got[i] == vals[i], "C13.int-cross-iter-to-batch")
	}

	src := append([]int64(nil), vals...)
	b2, err := IntegerArrayEncodeAll(src, nil)
	vAssume(err == nil)
	var dec IntegerDecoder
	dec.SetBytes(b2)
	i := 0
	for dec.Next() {
		if i < len(vals) {
			vAssert(dec.Read() == vals[i], "C13.int-cross-batch-to-iter")
		}
		i++
		if i > len(vals)+1 {
			break
		}
	}
	vAssert(dec.Error() == nil, "C13.int-cross-batch-to-iter-ok")
	vAssert(i == len(vals), "C13.int-cross-batch-to-iter-count")
	vReach("C13.int-cross.end")
}

// Timestamps: delta + divisor (10^k) scaling + RLE / simple8b / raw framing, iterator encoder and
// both decoders. Strictly increasing timestamps (what the cache hands to the encoder).
func VerifHarness_C13_Timestamps() {
	max := 3
	if vThorough() {
		max = 4
	}
	n := vLen("n", 1, max)
	ts := make([]int64, n)
	// timestamps in a window of 2^44 ns (~4.9 h) above a symbolic multiple-of-nothing base: the
	// divisor search takes v % 10^k on the deltas, which only cvc5's integer mode decides, and
	// only for bounded deltas
	base := vRange("base", -(1 << 62), 1<<62)
	for i := range ts {
		if i == 0 {
			ts[i] = base
		} else {
			d := vRange("delta", 1, 1<<44)
			ts[i] = ts[i-1] + d
		}
	}
	enc := NewTimeEncoder(n)
	for _, t := range ts {
		enc.Write(t)
	}
	b, err := enc.Bytes()
	vAssert(err == nil, "C13.time-encode-ok")
	if err != nil {
		return
	}
	vObserve("scheme", b[0]>>4)
	var dec TimeDecoder
	dec.Init(b)
	i := 0
	for dec.Next() {
		if i < n {
			vAssert(dec.Read() == ts[i], "C13.time-iter-roundtrip")
		}
		i++
		if i > n+1 {
			break
		}
	}
	vAssert(dec.Error() == nil, "C13.time-iter-ok")
	vAssert(i == n, "C13.time-iter-count")
	got, err := TimeArrayDecodeAll(b, nil)
	vAssert(err == nil, "C13.time-batch-ok")
	vAssert(len(got) == n, "C13.time-batch-count")
	for j := 0; j < n && j < len(got); j++ {
		vAssert(got[j] == ts[j], "C13.time-batch-roundtrip")
	}
	vReach("C13.time.end")
}

func VerifHarness_C13_Boolean() {
	max := 10
	if vThorough() {
		max = 17
	}
	n := vLen("n", 1, max)
	vals := make([]bool, n)
	for i := range vals {
		vals[i] = vBool("b")
	}
	enc := NewBooleanEncoder(n)
	for _, v := range vals {
		enc.Write(v)
	}
	b, err := enc.Bytes()
	vAssert(err == nil, "C13.bool-encode-ok")
	if err != nil {
		return
	}
	var dec BooleanDecoder
	dec.SetBytes(b)
	i := 0
	for dec.Next() {
		if i < n {
			vAssert(dec.Read() == vals[i], "C13.bool-iter-roundtrip")
		}
		i++
		if i > n+1 {
			break
		}
	}
	vAssert(dec.Error() == nil, "C13.bool-iter-ok")
	vAssert(i == n, "C13.bool-iter-count")
	got, err := BooleanArrayDecodeAll(b, nil)
	vAssert(err == nil, "C13.bool-batch-ok")
	vAssert(len(got) == n, "C13.bool-batch-count")
	for j := 0; j < n && j < len(got); j++ {
		vAssert(got[j] == vals[j], "C13.bool-batch-roundtrip")
	}
	b2, err := BooleanArrayEncodeAll(vals, nil)
	vAssert(err == nil, "C13.bool-batch-encode-ok")
	vAssert(len(b2) == len(b), "C13.bool-batch-and-iter-encoders-agree")
	for j := 0; j < len(b) && j < len(b2); j++ {
		vAssert(b[j] == b2[j], "C13.bool-batch-and-iter-encoders-agree")
	}
	vReach("C13.bool.end")
}

func VerifHarness_C13_String() {
	n := vLen("n", 1, 3)
	vals := make([]string, n)
	for i := range vals {
		vals[i] = vString("s", vLen("slen", 0, 2))
	}
	enc := NewStringEncoder(8)
	for _, v := range vals {
		enc.Write(v)
	}
	b, err := enc.Bytes()
	vAssert(err == nil, "C13.string-encode-ok")
	if err != nil {
		return
	}
	var dec StringDecoder
	vAssert(dec.SetBytes(b) == nil, "C13.string-setbytes-ok")
	i := 0
	for dec.Next() {
		if i < n {
			vAssert(dec.Read() == vals[i], "C13.string-iter-roundtrip")
		}
		i++
		if i > n+1 {
			break
		}
	}
	vAssert(dec.Error() == nil, "C13.string-iter-ok")
	vAssert(i == n, "C13.string-iter-count")
	got, err := StringArrayDecodeAll(b, nil)
	vAssert(err == nil, "C13.string-batch-ok")
	vAssert(len(got) == n, "C13.string-batch-count")
	for j := 0; j < n && j < len(got); j++ {
		vAssert(got[j] == vals[j], "C13.string-batch-roundtrip")
	}
	vReach("C13.string.end")
}

// Floats are compared as bit patterns. NaN is the encoder's end-of-stream marker and is rejected.
func VerifHarness_C13_Float() {
	n := vLen("n", 1, 2)
	vals := make([]float64, n)
	bits := make([]uint64, n)
	for i := range vals {
		vals[i] = vFloat64("f")
		bits[i] = math.Float64bits(vals[i])
		vAssume(!math.IsNaN(vals[i]))
	}
	enc := NewFloatEncoder()
	for _, v := range vals {
		enc.Write(v)
	}
	enc.Flush()
	b, err := enc.Bytes()
	vAssert(err == nil, "C13.float-encode-ok")
	if err != nil {
		return
	}
	var dec FloatDecoder
	vAssert(dec.SetBytes(b) == nil, "C13.float-setbytes-ok")
	i := 0
	for dec.Next() {
		if i < n {
			vAssert(math.Float64bits(dec.Values()) == bits[i], "C13.float-iter-roundtrip")
		}
		i++
		if i > n+1 {
			break
		}
	}
	vAssert(dec.Error() == nil, "C13.float-iter-ok")
	vAssert(i == n, "C13.float-iter-count")
	vReach("C13.float.end")
}
