//go:build verif_harness

package tsm1

// C09-K1b: compaction over real TSM files with pending deletes. The first file (real TSMWriter /
// TSMReader / BlockIterator) holds "cpu" (one block) and "mem" (two blocks) and may carry one
// range delete on one of the keys; an optional second file holds a newer "mem" block. The batch key iterator (the loading loop of
// tsmBatchKeyIterator.Next with per-key tombstone ranges, merge/combine/chunk) must produce, per
// key, exactly the points that reads returned before the compaction: the newest file's value per
// timestamp among the points not deleted in their own file.
//
// Engine-side models: the integer block codec is a table (block = {BlockInteger, id}; its
// fidelity is C13's claim), the tombstone file is the list model of C10-K2, mmap is a read of the
// file model.

import (
	"errors"
	"os"
	"path/filepath"

	"github.com/influxdata/influxdb/tsdb"
)

func init() {
	vRegister("VerifHarness_C09_CompactWithTombstones", VerifHarness_C09_CompactWithTombstones)
}

func vC09Encode2(a *tsdb.IntegerArray, b []byte) ([]byte, error) {
	if a.Len() == 0 {
		return nil, nil
	}
	cp := &tsdb.IntegerArray{Timestamps: append([]int64(nil), a.Timestamps...), Values: append([]int64(nil), a.Values...)}
	vC09Tab = append(vC09Tab, cp)
	return []byte{BlockInteger, byte(len(vC09Tab) - 1)}, nil
}

func vC09Decode2(block []byte, a *tsdb.IntegerArray) error {
	if len(block) != 2 || block[0] != BlockInteger || int(block[1]) >= len(vC09Tab) {
		return errors.New("corrupt block")
	}
	src := vC09Tab[block[1]]
	a.Timestamps = append(a.Timestamps[:0], src.Timestamps...)
	a.Values = append(a.Values[:0], src.Values...)
	return nil
}

func vC09BlockCount2(block []byte) (int, error) {
	if len(block) != 2 || int(block[1]) >= len(vC09Tab) {
		return 0, errors.New("corrupt block")
	}
	return vC09Tab[block[1]].Len(), nil
}

type vC09KP struct {
	key  string
	file int
	t, v int64
}

func VerifHarness_C09_CompactWithTombstones() {
	vC09Tab = nil
	vC10TombsByPath = map[string][]Tombstone{}
	vC10Applied = map[*Tombstoner]int{}
	dir, err := os.MkdirTemp("", "verif-compact-")
	if err != nil {
		panic(err)
	}
	defer os.RemoveAll(dir)

	nFiles := vLen("files", 1, 2)
	var readers []*TSMReader
	var names []string
	var pts []vC09KP
	next := int64(100)
	for f := 0; f < nFiles; f++ {
		name := filepath.Join(dir, []string{"000000001-000000001.tsm", "000000002-000000001.tsm"}[f])
		fd, err := os.OpenFile(name, os.O_CREATE|os.O_RDWR, 0666)
		vAssume(err == nil)
		w, err := NewTSMWriter(fd)
		vAssume(err == nil)
		// first file: "cpu" with one block and "mem" with two (so that a key's second block is loaded
		// after another key was merged); optional second file: one newer "mem" block
		keys := []string{"cpu", "mem"}
		if f == 1 {
			keys = []string{"mem"}
		}
		for _, key := range keys {
			nBlocks := 1
			if key == "mem" && f == 0 {
				nBlocks = 2
			}
			var prev int64
			for b := 0; b < nBlocks; b++ {
				t := vInt64("t")
				if b > 0 {
					vAssume(t > prev)
				}
				prev = t
				next++
				arr := &tsdb.IntegerArray{Timestamps: []int64{t}, Values: []int64{next}}
				enc, err := EncodeIntegerArrayBlock(arr, nil)
				vAssume(err == nil)
				vAssume(w.WriteBlock([]byte(key), t, t, enc) == nil)
				pts = append(pts, vC09KP{key, f, t, next})
			}
		}
		vAssume(w.WriteIndex() == nil)
		vAssume(w.Close() == nil)
		rf, err := os.Open(name)
		vAssume(err == nil)
		r, err := NewTSMReader(rf)
		vAssume(err == nil)
		readers = append(readers, r)
		names = append(names, name)
	}
	// pending deletes: per file at most one range delete on one key
	type del struct {
		file     int
		key      string
		min, max int64
	}
	var dels []del
	for f := 0; f < 1; f++ { // the (older) first file may carry one pending range delete
		if vBool("fileHasDelete") {
			key := []string{"cpu", "mem"}[vChoice("deletedKey", 2)]
			lo, hi := vInt64("deleteMin"), vInt64("deleteMax")
			vAssume(lo <= hi)
			vAssume(readers[f].DeleteRange([][]byte{[]byte(key)}, lo, hi) == nil)
			dels = append(dels, del{f, key, lo, hi})
		}
	}
	deleted := func(p vC09KP) bool {
		d := false
		for _, x := range dels {
			if x.file == p.file && x.key == p.key {
				d = vOr(d, vAnd(x.min <= p.t, p.t <= x.max))
			}
		}
		return d
	}

	size := vLen("pointsPerBlock", 1, 2)
	it, err := NewTSMBatchKeyIterator(size, vBool("fast"), make(chan struct{}), names, readers...)
	vAssume(err == nil)
	var out []vC09KP
	rounds := 0
	for it.Next() {
		rounds++
		if rounds > 16 {
			break
		}
		key, _, _, blk, rerr := it.Read()
		vAssert(rerr == nil, "C09.merge-no-error")
		if rerr != nil || blk == nil {
			break
		}
		var dec tsdb.IntegerArray
		vAssert(DecodeIntegerArrayBlock(blk, &dec) == nil, "C09.output-block-decodes")
		for i := range dec.Timestamps {
			out = append(out, vC09KP{key: string(key), t: dec.Timestamps[i], v: dec.Values[i]})
		}
	}
	vAssert(rounds <= 16, "C09.merge-terminates")
	vAssert(it.Err() == nil, "C09.merge-no-error")
	// per key: strictly ascending output
	for i := 1; i < len(out); i++ {
		if out[i-1].key == out[i].key {
			vAssert(out[i-1].t < out[i].t, "C09.output-sorted-and-non-overlapping")
		}
	}
	has := func(key string, t, v int64) bool {
		f := false
		for _, o := range out {
			if o.key == key {
				f = vOr(f, vAnd(o.t == t, o.v == v))
			}
		}
		return f
	}
	hasTime := func(key string, t int64) bool {
		f := false
		for _, o := range out {
			if o.key == key {
				f = vOr(f, o.t == t)
			}
		}
		return f
	}
	// every point that reads returned before the compaction is there with the newest live value;
	// a timestamp whose every write is deleted is absent
	for i, p := range pts {
		live := !deleted(p)
		newest := p.v
		anyLive := live
		for _, q := range pts[i+1:] {
			if q.key == p.key && q.file > p.file {
				ql := vAnd(q.t == p.t, !deleted(q))
				newest = vIte64(ql, q.v, newest)
				anyLive = vOr(anyLive, ql)
			}
		}
		for _, q := range pts[:i] {
			if q.key == p.key && q.file < p.file {
				anyLive = vOr(anyLive, vAnd(q.t == p.t, !deleted(q)))
			}
		}
		vAssert(vOr(!live, has(p.key, p.t, newest)), "C09.compaction-keeps-latest-live-value-per-timestamp")
		vAssert(vOr(anyLive, !hasTime(p.key, p.t)), "C09.compaction-does-not-resurrect-deleted-points")
	}
	for _, o := range out {
		known := false
		for _, p := range pts {
			if p.key == o.key {
				known = vOr(known, vAnd(p.t == o.t, p.v == o.v))
			}
		}
		vAssert(known, "C09.compaction-invents-nothing")
	}
	for _, r := range readers {
		r.Close()
	}
	vObserve("outPoints", len(out))
	vReach("C09.tombstones.end")
}
