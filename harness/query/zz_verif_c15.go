//go:build verif_harness

package query

// C15-K4: streamed query points. encode*Point / decode*Point (the message form every remote
// iterator point takes between nodes) reproduce name, tags, time, nil marker, aggregated count,
// value and auxiliary values, including typed nil auxiliary values and empty tag values (which
// GROUP BY produces for series lacking a dimension).

import (
	"math"
)

func init() {
	vRegister("VerifHarness_C15_StreamedPoint", VerifHarness_C15_StreamedPoint)
	vRegister("VerifHarness_C15_TagsID", VerifHarness_C15_TagsID)
}

func vC15NoNUL(s string) {
	for i := 0; i < len(s); i++ {
		vAssume(s[i] != 0)
	}
}

// vC15Tags builds 0..max tags with distinct non-empty NUL-free keys and NUL-free (possibly empty)
// values.
func vC15Tags(max int) map[string]string {
	nt := vLen("tags", 0, max)
	m := map[string]string{}
	var keys []string
	for i := 0; i < nt; i++ {
		k := vString("tagKey", vLen("tagKeyLen", 1, 2))
		v := vString("tagValue", vLen("tagValueLen", 0, 2))
		vC15NoNUL(k)
		vC15NoNUL(v)
		for _, o := range keys {
			vAssume(o != k)
		}
		keys = append(keys, k)
		m[k] = v
	}
	return m
}

func vC15CheckTags(got Tags, m map[string]string, id string) {
	vAssert(got.ID() == id, "C15.point-tags-id-roundtrip")
	vAssert(len(got.KeyValues()) == len(m), "C15.point-tags-count-roundtrip")
	for k, v := range m {
		gv, ok := got.KeyValues()[k]
		vAssert(ok && gv == v, "C15.point-tags-roundtrip")
	}
}

func vC15Aux() []interface{} {
	na := vLen("aux", 0, 2)
	var aux []interface{}
	for i := 0; i < na; i++ {
		switch vChoice("auxKind", 11) {
		case 0:
			aux = append(aux, math.Float64frombits(vUint64("auxFloatBits")))
		case 1:
			aux = append(aux, (*float64)(nil))
		case 2:
			aux = append(aux, vInt64("auxInt"))
		case 3:
			aux = append(aux, (*int64)(nil))
		case 4:
			aux = append(aux, vUint64("auxUint"))
		case 5:
			aux = append(aux, (*uint64)(nil))
		case 6:
			aux = append(aux, vString("auxString", vLen("auxStringLen", 0, 2)))
		case 7:
			aux = append(aux, (*string)(nil))
		case 8:
			aux = append(aux, vBool("auxBool"))
		case 9:
			aux = append(aux, (*bool)(nil))
		default:
			aux = append(aux, nil)
		}
	}
	return aux
}

func vC15CheckAux(got, want []interface{}) {
	vAssert(len(got) == len(want), "C15.point-aux-count-roundtrip")
	for i := 0; i < len(got) && i < len(want); i++ {
		switch w := want[i].(type) {
		case float64:
			g, ok := got[i].(float64)
			vAssert(ok && math.Float64bits(g) == math.Float64bits(w), "C15.point-aux-roundtrip")
		case int64:
			g, ok := got[i].(int64)
			vAssert(ok && g == w, "C15.point-aux-roundtrip")
		case uint64:
			g, ok := got[i].(uint64)
			vAssert(ok && g == w, "C15.point-aux-roundtrip")
		case string:
			g, ok := got[i].(string)
			vAssert(ok && g == w, "C15.point-aux-roundtrip")
		case bool:
			g, ok := got[i].(bool)
			vAssert(ok && g == w, "C15.point-aux-roundtrip")
		case *float64:
			g, ok := got[i].(*float64)
			vAssert(ok && g == nil, "C15.point-aux-nil-marker-roundtrip")
		case *int64:
			g, ok := got[i].(*int64)
			vAssert(ok && g == nil, "C15.point-aux-nil-marker-roundtrip")
		case *uint64:
			g, ok := got[i].(*uint64)
			vAssert(ok && g == nil, "C15.point-aux-nil-marker-roundtrip")
		case *string:
			g, ok := got[i].(*string)
			vAssert(ok && g == nil, "C15.point-aux-nil-marker-roundtrip")
		case *bool:
			g, ok := got[i].(*bool)
			vAssert(ok && g == nil, "C15.point-aux-nil-marker-roundtrip")
		default:
			vAssert(got[i] == nil, "C15.point-aux-nil-marker-roundtrip")
		}
	}
}

var vC15TagSets = []map[string]string{
	{},
	{"host": ""},
	{"host": "A", "region": ""},
	{"host": "", "region": "west"},
	{"host": "A", "region": "west"},
}

func VerifHarness_C15_StreamedPoint() {
	name := vString("name", vLen("nameLen", 0, 2))
	// tag sets including empty values in every position; symbolic tag sets are covered by
	// VerifHarness_C15_TagsID
	m := vC15TagSets[vChoice("tagSet", len(vC15TagSets))]
	tags := NewTags(m)
	t := vInt64("time")
	isNil := vBool("nil")
	agg := vUint32("aggregated")
	aux := vC15Aux()
	kind := vChoice("pointType", 5)
	vObserve("tagsID", tags.ID())
	switch kind {
	case 0:
		p := &FloatPoint{Name: name, Tags: tags, Time: t, Nil: isNil, Aggregated: agg, Aux: aux, Value: math.Float64frombits(vUint64("floatBits"))}
		q := decodeFloatPoint(encodeFloatPoint(p))
		vAssert(q.Name == p.Name && q.Time == p.Time && q.Nil == p.Nil && q.Aggregated == p.Aggregated, "C15.point-header-roundtrip")
		vAssert(math.Float64bits(q.Value) == math.Float64bits(p.Value), "C15.point-value-roundtrip")
		vC15CheckTags(q.Tags, m, tags.ID())
		vC15CheckAux(q.Aux, aux)
	case 1:
		p := &IntegerPoint{Name: name, Tags: tags, Time: t, Nil: isNil, Aggregated: agg, Aux: aux, Value: vInt64("intValue")}
		q := decodeIntegerPoint(encodeIntegerPoint(p))
		vAssert(q.Name == p.Name && q.Time == p.Time && q.Nil == p.Nil && q.Aggregated == p.Aggregated, "C15.point-header-roundtrip")
		vAssert(q.Value == p.Value, "C15.point-value-roundtrip")
		vC15CheckTags(q.Tags, m, tags.ID())
		vC15CheckAux(q.Aux, aux)
	case 2:
		p := &UnsignedPoint{Name: name, Tags: tags, Time: t, Nil: isNil, Aggregated: agg, Aux: aux, Value: vUint64("uintValue")}
		q := decodeUnsignedPoint(encodeUnsignedPoint(p))
		vAssert(q.Name == p.Name && q.Time == p.Time && q.Nil == p.Nil && q.Aggregated == p.Aggregated, "C15.point-header-roundtrip")
		vAssert(q.Value == p.Value, "C15.point-value-roundtrip")
		vC15CheckTags(q.Tags, m, tags.ID())
		vC15CheckAux(q.Aux, aux)
	case 3:
		p := &StringPoint{Name: name, Tags: tags, Time: t, Nil: isNil, Aggregated: agg, Aux: aux, Value: vString("stringValue", vLen("stringValueLen", 0, 2))}
		q := decodeStringPoint(encodeStringPoint(p))
		vAssert(q.Name == p.Name && q.Time == p.Time && q.Nil == p.Nil && q.Aggregated == p.Aggregated, "C15.point-header-roundtrip")
		vAssert(q.Value == p.Value, "C15.point-value-roundtrip")
		vC15CheckTags(q.Tags, m, tags.ID())
		vC15CheckAux(q.Aux, aux)
	default:
		p := &BooleanPoint{Name: name, Tags: tags, Time: t, Nil: isNil, Aggregated: agg, Aux: aux, Value: vBool("boolValue")}
		q := decodeBooleanPoint(encodeBooleanPoint(p))
		vAssert(q.Name == p.Name && q.Time == p.Time && q.Nil == p.Nil && q.Aggregated == p.Aggregated, "C15.point-header-roundtrip")
		vAssert(q.Value == p.Value, "C15.point-value-roundtrip")
		vC15CheckTags(q.Tags, m, tags.ID())
		vC15CheckAux(q.Aux, aux)
	}
	vReach("C15.streamed-point.end")
}

// The tag-set identifier alone, with up to three tags: decodeTags(encodeTags(m)) == m, and the
// identifier does not depend on map iteration order.
func VerifHarness_C15_TagsID() {
	m := vC15Tags(3)
	id := encodeTags(m)
	got := decodeTags(id)
	vAssert(len(got) == len(m), "C15.tags-id-count-roundtrip")
	for k, v := range m {
		gv, ok := got[k]
		vAssert(ok && gv == v, "C15.tags-id-roundtrip")
	}
	id2 := encodeTags(got)
	vAssert(string(id) == string(id2), "C15.tags-id-canonical")
	t := NewTags(m)
	u := newTagsID(t.ID())
	vC15CheckTags(u, m, t.ID())
	vObserve("id", id)
	vReach("C15.tagsid.end")
}
