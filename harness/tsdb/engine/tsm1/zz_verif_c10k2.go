//go:build verif_harness

package tsm1

// C10-K2: deletes through the TSM reader are permanent and exact. A sequence of
// TSMReader.DeleteRange calls (BatchDelete -> Tombstoner.AddRange/Flush -> applyTombstones) leaves
// exactly the targeted inclusive ranges of the targeted keys deleted, and a reader opened
// afterwards on the same file and tombstone file (applyTombstones over Tombstoner.Walk) answers
// the same.
//
// In the engine the tombstone file (gzip) is a list model (AddRange appends, Walk replays it in
// order); natively the real Tombstoner writes and reads the real file.

import (
	"os"
	"path/filepath"
)

func init() {
	vRegister("VerifHarness_C10_ReaderDeletesPersist", VerifHarness_C10_ReaderDeletesPersist)
}

// one tombstone list per TSM file path (two readers of the same file share it)
var vC10TombsByPath = map[string][]Tombstone{}

func vC10AddRange(t *Tombstoner, keys [][]byte, min, max int64) error {
	for _, k := range keys {
		vC10TombsByPath[t.Path] = append(vC10TombsByPath[t.Path], Tombstone{Key: append([]byte(nil), k...), Min: min, Max: max})
	}
	return nil
}
func vC10Flush(t *Tombstoner) error    { return nil }
func vC10Rollback(t *Tombstoner) error { return nil }

// Walk is incremental per Tombstoner (the real one remembers lastAppliedOffset): a reader that
// stays open sees only the tombstones added since its last walk, a fresh one sees all.
var vC10Applied map[*Tombstoner]int

func vC10Walk(t *Tombstoner, fn func(t Tombstone) error) error {
	all := vC10TombsByPath[t.Path]
	from := vC10Applied[t]
	for _, x := range all[from:] {
		if err := fn(x); err != nil {
			return err
		}
	}
	vC10Applied[t] = len(all)
	return nil
}

func vC10TempDir() string {
	d, err := os.MkdirTemp("", "verif-c10")
	if err != nil {
		panic(err)
	}
	return d
}
func vC10TempDirModel() string  { return "/c10" }
func vC10RemoveAll(d string)    { os.RemoveAll(d) }
func vC10RemoveAllModel(string) {}

type vC10Del struct {
	keys     [][]byte
	min, max int64
}

func VerifHarness_C10_ReaderDeletesPersist() {
	vC10TombsByPath = map[string][]Tombstone{}
	vC10Applied = map[*Tombstoner]int{}
	dir := vC10TempDir()
	defer vC10RemoveAll(dir)
	path := filepath.Join(dir, "000000001-000000001.tsm")

	// index: "cpu" and "mem" with one block each (symbolic ranges)
	names := [][]byte{[]byte("cpu"), []byte("mem")}
	var ranges [2]vC10Range
	w := NewIndexWriter()
	lo, hi := vInt64("blockMin"), vInt64("blockMax")
	vAssume(lo <= hi)
	for i, name := range names {
		// quick tier: both keys cover the same time range (as series written together do)
		if i > 0 && vThorough() {
			lo, hi = vInt64("blockMin"), vInt64("blockMax")
			vAssume(lo <= hi)
		}
		ranges[i] = vC10Range{lo, hi}
		w.Add(name, BlockInteger, lo, hi, int64(10+i*20), 20)
	}
	img, err := w.MarshalBinary()
	vAssume(err == nil)
	open := func() *TSMReader {
		idx := NewIndirectIndex()
		vAssume(idx.UnmarshalBinary(img) == nil)
		return &TSMReader{index: idx, tombstoner: NewTombstoner(path, nil)}
	}
	r := open()

	maxDel := 2
	nDel := vLen("deletes", 1, maxDel)
	var dels []vC10Del
	for i := 0; i < nDel; i++ {
		var keys [][]byte
		switch vChoice("deleteKeys", 3) {
		case 0:
			keys = names[:1]
		case 1:
			keys = names[1:]
		default:
			keys = names
		}
		d := vC10Del{keys, vInt64("deleteMin"), vInt64("deleteMax")}
		vAssume(d.min <= d.max)
		dels = append(dels, d)
		vAssert(r.DeleteRange(d.keys, d.min, d.max) == nil, "C10.reader-delete-ok")
	}

	reopened := open()
	vAssert(reopened.applyTombstones() == nil, "C10.reopen-applies-tombstones")

	t := vInt64("probe")
	for i, name := range names {
		inBlock := vAnd(ranges[i].min <= t, t <= ranges[i].max)
		deleted := false
		for _, d := range dels {
			for _, k := range d.keys {
				if string(k) == string(name) {
					deleted = vOr(deleted, vAnd(d.min <= t, t <= d.max))
				}
			}
		}
		want := vAnd(inBlock, !deleted)
		live := r.index.ContainsValue(name, t)
		after := reopened.index.ContainsValue(name, t)
		vAssert(live == want, "C10.reader-delete-removes-exactly-the-targeted-ranges")
		vAssert(after == want, "C10.deletes-survive-reopen-exactly")
		vObserve("contains", after)
	}
	vReach("C10.reader-deletes.end")
}
