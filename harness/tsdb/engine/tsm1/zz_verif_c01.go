//go:build verif_harness

package tsm1

// C01-K2: recovery leaves the log appendable. A last WAL segment = valid prefix + torn tail; after
// WAL.Open + CacheLoader.Load (the order Engine.Open uses) a further write is acknowledged; a
// second recovery must return that write.

import (
	"bytes"
	"os"
	"path/filepath"
)

func init() {
	vRegister("VerifHarness_C01_SecondRestart", VerifHarness_C01_SecondRestart)
}

func vC01Frame(e WALEntry) []byte {
	raw, err := e.Encode(nil)
	if err != nil {
		panic(err)
	}
	var buf bytes.Buffer
	w := NewWALSegmentWriter(vWALCloser{&buf})
	if err := w.Write(e.Type(), vWALCompress(raw)); err != nil {
		panic(err)
	}
	w.Flush()
	return buf.Bytes()
}

func vC01Recover(dir string) (*WAL, *Cache, error) {
	w := NewWAL(dir)
	if err := w.Open(); err != nil {
		return nil, nil, err
	}
	files, err := segmentFileNames(dir)
	if err != nil {
		return nil, nil, err
	}
	cache := NewCache(1 << 30)
	if err := NewCacheLoader(files).Load(cache); err != nil {
		return nil, nil, err
	}
	return w, cache, nil
}

func vC01Has(c *Cache, key string, t, v int64) bool {
	for _, x := range c.Values([]byte(key)) {
		if x.UnixNano() == t {
			iv, ok := x.(IntegerValue)
			return ok && iv.value == v
		}
	}
	return false
}

func VerifHarness_C01_SecondRestart() {
	dir, err := os.MkdirTemp("", "verif-wal-")
	if err != nil {
		panic(err)
	}
	defer os.RemoveAll(dir)
	// acknowledged before the crash: A = (t=1, v=va)
	va := vInt64("valueA")
	seg := vC01Frame(&WriteWALEntry{Values: map[string][]Value{"cpu": {NewIntegerValue(1, va)}}})
	validLen := len(seg)
	// torn tail: a proper prefix of the next entry's frame, or a few arbitrary bytes
	next := vC01Frame(&WriteWALEntry{Values: map[string][]Value{"cpu": {NewIntegerValue(2, 7)}}})
	switch vChoice("tailKind", 3) {
	case 0: // clean shutdown: no tail
	case 1:
		k := vLen("tornPrefix", 1, 12)
		if k >= len(next) {
			k = len(next) - 1
		}
		seg = append(seg, next[:k]...)
	default:
		// arbitrary bytes shorter than a frame header (a garbage header would carry an arbitrary
		// 32-bit length; framed garbage is the subject of VerifHarness_WAL_CorruptPayload)
		seg = append(seg, vBytes("garbage", vLen("garbageLen", 1, 4))...)
	}
	hadTail := len(seg) > validLen
	if err := os.WriteFile(filepath.Join(dir, "_00001.wal"), seg, 0666); err != nil {
		panic(err)
	}

	// first restart
	w, cache, err := vC01Recover(dir)
	vAssert(err == nil, "C01.recovery-ok")
	if err != nil {
		return
	}
	vAssert(vC01Has(cache, "cpu", 1, va), "C01.acknowledged-write-survives-recovery")
	// a new write is acknowledged after recovery
	vb := vInt64("valueB")
	_, werr := w.WriteMulti(map[string][]Value{"cpu": {NewIntegerValue(3, vb)}})
	vAssert(werr == nil, "C01.write-after-recovery-ok")
	vAssert(w.Close() == nil, "C01.close-ok")
	if werr != nil {
		return
	}

	// second restart
	w2, cache2, err := vC01Recover(dir)
	vAssert(err == nil, "C01.recovery-ok")
	if err != nil {
		return
	}
	vAssert(vC01Has(cache2, "cpu", 1, va), "C01.acknowledged-write-survives-recovery")
	// known finding C01-F1: WAL.Open leaves the write offset at the old end of file while
	// CacheLoader.Load truncates the torn tail; the new entry lands behind a hole
	vAssertKF(vC01Has(cache2, "cpu", 3, vb), "C01.write-acknowledged-after-recovery-survives-next-recovery", hadTail, "C01-F1")
	w2.Close()
	vObserve("hadTail", hadTail)
	vReach("C01.secondrestart.end")
}
