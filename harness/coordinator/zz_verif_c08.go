//go:build verif_harness

package coordinator

// C08: PointsWriter.MapShards / sgList against the metadata's own designation of the shard
// group for a timestamp (RetentionPolicyInfo.ShardGroupByTimestamp), with the real
// Data.CreateShardGroup behind the MetaClient fake.

import (
	"time"

	"github.com/influxdata/influxdb/models"
	"github.com/influxdata/influxdb/services/meta"
)

func init() {
	vRegister("VerifHarness_C08_MapShards", VerifHarness_C08_MapShards)
	vRegister("VerifHarness_C08_RetentionCutoff", VerifHarness_C08_RetentionCutoff)
	vRegister("VerifHarness_C08_BatchStraddlesTruncation", VerifHarness_C08_BatchStraddlesTruncation)
	vRegister("VerifHarness_C08_OldPointInLiveGroup", VerifHarness_C08_OldPointInLiveGroup)
	vRegister("VerifHarness_C08_TagOrderRouting", VerifHarness_C08_TagOrderRouting)
}

type vC08Meta struct {
	data    *meta.Data
	creates int
}

func (m *vC08Meta) NodeID() uint64                          { return 1 }
func (m *vC08Meta) Database(name string) *meta.DatabaseInfo { return m.data.Database(name) }
func (m *vC08Meta) RetentionPolicy(d, p string) (*meta.RetentionPolicyInfo, error) {
	return m.data.RetentionPolicy(d, p)
}

// CreateShardGroup mirrors meta.Client.CreateShardGroup with the raft round trip replaced by
// applying the command to the local Data.
func (m *vC08Meta) CreateShardGroup(d, p string, t time.Time) (*meta.ShardGroupInfo, error) {
	if sg, _ := m.data.ShardGroupByTimestamp(d, p, t); sg != nil {
		return sg, nil
	}
	m.creates++
	if err := m.data.CreateShardGroup(d, p, t); err != nil {
		return nil, err
	}
	rpi, err := m.data.RetentionPolicy(d, p)
	if err != nil || rpi == nil {
		return nil, err
	}
	return rpi.ShardGroupByTimestamp(t), nil
}

var vC08Durations = []time.Duration{time.Hour, 24 * time.Hour, 168 * time.Hour}

// vC08Data builds metadata with one database/policy, nodes 1..nNodes and nGroups existing shard
// groups with symbolic ranges satisfying the metadata invariant (live groups pairwise disjoint
// using the truncated end, sorted by ShardGroupInfos.Less, truncation inside the group).
func vC08Data(nGroups int, duration time.Duration) *meta.Data {
	d := &meta.Data{Index: 1}
	// two data nodes, replication 1 (=> two shards per new group); thorough also replication 2
	nNodes, replicaN := 2, 1
	durations := []time.Duration{time.Hour, 168 * time.Hour}
	if vThorough() {
		replicaN = vLen("replicaN", 1, 2)
		durations = vC08Durations
	}
	for i := 1; i <= nNodes; i++ {
		d.DataNodes = append(d.DataNodes, meta.NodeInfo{ID: uint64(i)})
	}
	d.MaxNodeID = uint64(nNodes)
	rp := meta.RetentionPolicyInfo{Name: "rp", ReplicaN: replicaN, Duration: duration,
		ShardGroupDuration: durations[vChoice("shardGroupDuration", len(durations))]}
	for g := 0; g < nGroups; g++ {
		start := vC08Time("sgStart", rp.ShardGroupDuration)
		end := vC08Time("sgEnd", rp.ShardGroupDuration)
		vAssume(start < end)
		sg := meta.ShardGroupInfo{ID: uint64(g + 1), StartTime: time.Unix(0, start), EndTime: time.Unix(0, end)}
		switch vChoice("sgState", 3) {
		case 1:
			tr := vC08Time("sgTruncatedAt", rp.ShardGroupDuration)
			vAssume(start <= tr && tr <= end)
			sg.TruncatedAt = time.Unix(0, tr)
		case 2:
			sg.DeletedAt = time.Unix(0, 1)
		}
		nShards := 2
		for s := 0; s < nShards; s++ {
			d.MaxShardID++
			sg.Shards = append(sg.Shards, meta.ShardInfo{ID: d.MaxShardID, Owners: []meta.ShardOwner{{NodeID: 1}}})
		}
		rp.ShardGroups = append(rp.ShardGroups, sg)
	}
	d.MaxShardGroupID = uint64(nGroups)
	// invariant: sorted, live groups disjoint
	gs := meta.ShardGroupInfos(rp.ShardGroups)
	for i := 0; i+1 < len(gs); i++ {
		vAssume(!gs.Less(i+1, i))
	}
	for i := 0; i < len(gs); i++ {
		for j := 0; j < i; j++ {
			if gs[i].Deleted() || gs[j].Deleted() {
				continue
			}
			ei, ej := gs[i].EndTime, gs[j].EndTime
			if gs[i].Truncated() {
				ei = gs[i].TruncatedAt
			}
			if gs[j].Truncated() {
				ej = gs[j].TruncatedAt
			}
			vAssume(!(gs[j].StartTime.Before(ei) && gs[i].StartTime.Before(ej)))
		}
	}
	d.Databases = []meta.DatabaseInfo{{Name: "db", DefaultRetentionPolicy: "rp", RetentionPolicies: []meta.RetentionPolicyInfo{rp}}}
	return d
}

// vC08Time is a symbolic timestamp inside one of three windows of three shard-group durations:
// around the epoch, at the minimum and at the maximum representable time. (Unrestricted 64-bit
// timestamps make the divisibility reasoning behind Truncate undecidable in practice for all three
// back ends; group-boundary, truncation and range-clamp behaviour all occur inside the windows.)
var vC08Win int // the window all timestamps of one run lie in (chosen once per run)

func vC08Time(tag string, d time.Duration) int64 {
	w := 3 * int64(d)
	switch vC08Win {
	case 0:
		return vRange(tag, -w, w)
	case 1:
		return vRange(tag, models.MinNanoTime, models.MinNanoTime+w)
	}
	return vRange(tag, models.MaxNanoTime-w, models.MaxNanoTime)
}

var vC08Lines = []string{"a v=1i", "b v=1i"}

func vC08Point(t int64) models.Point {
	pts, err := models.ParsePointsString(vC08Lines[vChoice("series", len(vC08Lines))])
	if err != nil || len(pts) != 1 {
		panic("harness: bad line")
	}
	pts[0].SetTime(time.Unix(0, t))
	return pts[0]
}

func vC08Writer(mc *vC08Meta) *PointsWriter {
	w := NewPointsWriter()
	w.MetaClient = mc
	return w
}

// Infinite retention: routing against arbitrary existing groups.
func VerifHarness_C08_MapShards() {
	// (two existing groups with symbolic ranges did not finish in 20 minutes; the thorough tier
	// widens replication and group durations instead, see vC08Data)
	maxGroups, maxPoints := 1, 1
	vC08Win = vChoice("timeWindow", 3)
	nGroups := vLen("groups", 0, maxGroups)
	data := vC08Data(nGroups, 0)
	mc := &vC08Meta{data: data}
	w := vC08Writer(mc)
	rp0, _ := data.RetentionPolicy("db", "rp")
	rpDur := rp0.ShardGroupDuration
	nPts := vLen("points", 1, maxPoints)
	var pts []models.Point
	var times []int64
	for i := 0; i < nPts; i++ {
		t := vC08Time("t", rpDur)
		times = append(times, t)
		pts = append(pts, vC08Point(t))
	}
	m, err := w.MapShards(&WritePointsRequest{Database: "db", RetentionPolicy: "rp", Points: pts})
	vAssert(err == nil, "C08.mapshards-ok")
	if err != nil {
		return
	}
	rpi, _ := data.RetentionPolicy("db", "rp")
	// (1) conservation: every point exactly once
	total := len(m.Dropped)
	for _, ps := range m.Points {
		total += len(ps)
	}
	vAssert(total == nPts, "C08.no-point-lost-or-duplicated")
	vAssert(len(m.Dropped) == 0, "C08.nothing-dropped-under-infinite-retention")
	for i, p := range pts {
		count := 0
		var shardID uint64
		for sid, ps := range m.Points {
			for _, q := range ps {
				if q == p {
					count++
					shardID = sid
				}
			}
		}
		vAssert(count == 1, "C08.point-mapped-exactly-once")
		if count != 1 {
			continue
		}
		// (3) the group is the one the metadata designates for the timestamp
		want := rpi.ShardGroupByTimestamp(time.Unix(0, times[i]))
		vAssert(want != nil, "C08.metadata-has-group-for-mapped-point")
		if want == nil {
			continue
		}
		inWant := false
		for _, sh := range want.Shards {
			if sh.ID == shardID {
				inWant = true
			}
		}
		// known finding C08-F1: sgList ignores TruncatedAt: a later point of the batch at or after
		// the truncation time of a group already listed for an earlier point is routed into it
		var actual *meta.ShardGroupInfo
		for gi := range rpi.ShardGroups {
			for _, sh := range rpi.ShardGroups[gi].Shards {
				if sh.ID == shardID {
					actual = &rpi.ShardGroups[gi]
				}
			}
		}
		truncatedRoute := actual != nil && actual.Truncated() && !time.Unix(0, times[i]).Before(actual.TruncatedAt)
		vAssertKF(inWant, "C08.point-routed-to-designated-group", truncatedRoute, "C08-F1")
		// (4) shard chosen by the series key alone
		if inWant {
			sh := want.ShardFor(p)
			vAssert(sh.ID == shardID, "C08.shard-chosen-by-series-hash")
		}
		// (5) batch independence: the point alone maps to the same shard on the same metadata
		solo, err := w.MapShards(&WritePointsRequest{Database: "db", RetentionPolicy: "rp", Points: []models.Point{p}})
		vAssert(err == nil, "C08.mapshards-ok")
		if err == nil {
			_, same := solo.Points[shardID]
			vAssertKF(same, "C08.routing-independent-of-batch", truncatedRoute, "C08-F1")
		}
	}
	vObserve("creates", mc.creates)
	vReach("C08.mapshards.end")
}

// Two points of one batch around the truncation time of an existing truncated group: the first
// lies before the truncation time (so the group is the designated one and enters the writer's
// list), the second at or after it (the metadata designates a different, possibly new, group).
func VerifHarness_C08_BatchStraddlesTruncation() {
	vC08Win = 0
	d := &meta.Data{Index: 1, DataNodes: []meta.NodeInfo{{ID: 1}, {ID: 2}}, MaxNodeID: 2}
	rp := meta.RetentionPolicyInfo{Name: "rp", ReplicaN: 1, ShardGroupDuration: time.Hour}
	h := int64(time.Hour)
	start := vRange("sgStart", -2*h, 2*h)
	end := vRange("sgEnd", -2*h, 3*h)
	tr := vRange("sgTruncatedAt", -2*h, 3*h)
	vAssume(start < tr && tr < end)
	sg := meta.ShardGroupInfo{ID: 1, StartTime: time.Unix(0, start), EndTime: time.Unix(0, end), TruncatedAt: time.Unix(0, tr),
		Shards: []meta.ShardInfo{{ID: 1, Owners: []meta.ShardOwner{{NodeID: 1}}}, {ID: 2, Owners: []meta.ShardOwner{{NodeID: 2}}}}}
	rp.ShardGroups = []meta.ShardGroupInfo{sg}
	d.MaxShardGroupID, d.MaxShardID = 1, 2
	// optionally an earlier, untouched group directly before it, with a third point of the batch
	withEarlier := vBool("pointInEarlierGroup")
	var t0 int64
	if withEarlier {
		sg0 := meta.ShardGroupInfo{ID: 2, StartTime: time.Unix(0, start-h), EndTime: time.Unix(0, start),
			Shards: []meta.ShardInfo{{ID: 3, Owners: []meta.ShardOwner{{NodeID: 1}}}, {ID: 4, Owners: []meta.ShardOwner{{NodeID: 2}}}}}
		rp.ShardGroups = []meta.ShardGroupInfo{sg0, sg}
		d.MaxShardGroupID, d.MaxShardID = 2, 4
		t0 = start - 1 // the last nanosecond of the earlier group
	}
	d.Databases = []meta.DatabaseInfo{{Name: "db", DefaultRetentionPolicy: "rp", RetentionPolicies: []meta.RetentionPolicyInfo{rp}}}
	mc := &vC08Meta{data: d}
	w := vC08Writer(mc)
	t1 := vRange("t1", -2*h, 3*h)
	t2 := vRange("t2", -2*h, 3*h)
	vAssume(start <= t1 && t1 < tr && tr <= t2 && t2 < end)
	order := vBool("laterPointFirst")
	p1, p2 := vC08Point(t1), vC08Point(t2)
	pts := []models.Point{p1, p2}
	if order {
		pts = []models.Point{p2, p1}
	}
	if withEarlier {
		p0 := vC08Point(t0)
		switch vChoice("earlierPointPosition", 3) {
		case 0:
			pts = append([]models.Point{p0}, pts...)
		case 1:
			pts = []models.Point{pts[0], p0, pts[1]}
		default:
			pts = append(pts, p0)
		}
	}
	m, err := w.MapShards(&WritePointsRequest{Database: "db", RetentionPolicy: "rp", Points: pts})
	vAssert(err == nil, "C08.mapshards-ok")
	if err != nil {
		return
	}
	rpi, _ := d.RetentionPolicy("db", "rp")
	for i, p := range []models.Point{p1, p2} {
		t := t1
		if i == 1 {
			t = t2
		}
		want := rpi.ShardGroupByTimestamp(time.Unix(0, t))
		vAssert(want != nil, "C08.metadata-has-group-for-mapped-point")
		if want == nil {
			continue
		}
		found := false
		for sid, ps := range m.Points {
			for _, q := range ps {
				if q == p {
					for _, sh := range want.Shards {
						if sh.ID == sid {
							found = true
						}
					}
				}
			}
		}
		// known finding C08-F1 (second point routed into the truncated group)
		vAssertKF(found, "C08.point-routed-to-designated-group", i == 1, "C08-F1")
	}
	vReach("C08.straddle.end")
}

// A point older than the retention period that shares its (hourly) shard group with a younger
// point of the same batch must still be reported as dropped. Both timestamps are derived from the
// clock, so the native replay on the real clock exercises the same situation.
func VerifHarness_C08_OldPointInLiveGroup() {
	dur := 30 * 24 * time.Hour
	d := &meta.Data{Index: 1, DataNodes: []meta.NodeInfo{{ID: 1}, {ID: 2}}, MaxNodeID: 2}
	rp := meta.RetentionPolicyInfo{Name: "rp", ReplicaN: 1, Duration: dur, ShardGroupDuration: time.Hour}
	d.Databases = []meta.DatabaseInfo{{Name: "db", DefaultRetentionPolicy: "rp", RetentionPolicies: []meta.RetentionPolicyInfo{rp}}}
	mc := &vC08Meta{data: d}
	w := vC08Writer(mc)
	before := time.Now()
	vAssume(before.UnixNano() >= 1767225600000000000 && before.UnixNano() < 1830297600000000000)
	cut := before.Add(-dur)
	gs := cut.Truncate(time.Hour)
	ge := gs.Add(time.Hour)
	vAssume(cut.Sub(gs) > 4*time.Second && ge.Sub(cut) > 4*time.Second)
	tOld := gs.Add(cut.Sub(gs) / 2)
	tYoung := cut.Add(ge.Sub(cut) / 2)
	vC08Win = 0
	pOld, pYoung := vC08Point(tOld.UnixNano()), vC08Point(tYoung.UnixNano())
	pts := []models.Point{pYoung, pOld}
	if vBool("oldPointFirst") {
		pts = []models.Point{pOld, pYoung}
	}
	m, err := w.MapShards(&WritePointsRequest{Database: "db", RetentionPolicy: "rp", Points: pts})
	after := time.Now()
	vAssume(after.Sub(before) < time.Second)
	vAssert(err == nil, "C08.mapshards-ok")
	if err != nil {
		return
	}
	oldDropped, youngDropped := false, false
	for _, q := range m.Dropped {
		if q == pOld {
			oldDropped = true
		}
		if q == pYoung {
			youngDropped = true
		}
	}
	vAssert(!youngDropped, "C08.dropped-only-if-older-than-retention")
	// known finding C08-F2: the old point is covered by the group created for the young one
	vAssertKF(oldDropped, "C08.older-than-retention-is-dropped", true, "C08-F2")
	vReach("C08.oldpoint.end")
}

// The same series written with its tags in either order is routed to the same shard of a group.
func VerifHarness_C08_TagOrderRouting() {
	k1, v1 := vBytes("k1", 1), vBytes("v1", 1)
	k2, v2 := vBytes("k2", vLen("k2len", 1, 2)), vBytes("v2", 1)
	for _, s := range [][]byte{k1, v1, k2, v2} {
		for _, c := range s {
			// plain tag bytes: nothing that needs escaping, no control of the line structure
			vAssume(c != '\\' && c != '\n' && c != ',' && c != '=' && c != ' ' && c != '"')
		}
	}
	mk := func(a, av, b, bv []byte) string {
		l := []byte("m,")
		l = append(append(append(l, a...), '='), av...)
		l = append(l, ',')
		l = append(append(append(l, b...), '='), bv...)
		return string(append(l, " f=1i 5"...))
	}
	p1, e1 := models.ParsePointsString(mk(k1, v1, k2, v2))
	p2, e2 := models.ParsePointsString(mk(k2, v2, k1, v1))
	vAssume(e1 == nil && e2 == nil && len(p1) == 1 && len(p2) == 1)
	sg := meta.ShardGroupInfo{ID: 1, Shards: []meta.ShardInfo{{ID: 1}, {ID: 2}, {ID: 3}}}
	s1, s2 := sg.ShardFor(p1[0]), sg.ShardFor(p2[0])
	vAssert(s1.ID == s2.ID, "C08.routing-independent-of-tag-order")
	vObserve("shard", s1.ID)
	vReach("C08.tagorder.end")
}

// Finite retention: a point is dropped only if it is older than the retention period at the time
// of the write, and always if it is older than that already before the call. Times are relative
// to the clock so that the native build (real clock) and the engine (symbolic clock) agree.
func VerifHarness_C08_RetentionCutoff() {
	dur := time.Duration(vRange("retention", int64(time.Hour), int64(30*24*time.Hour)))
	data := vC08Data(0, dur)
	mc := &vC08Meta{data: data}
	w := vC08Writer(mc)
	before := time.Now()
	// the clock is in 2026-2027 (the native replay runs on the real clock)
	vAssume(before.UnixNano() >= 1767225600000000000 && before.UnixNano() < 1830297600000000000)
	maxPts := 1 // two points sharing a group are the subject of VerifHarness_C08_OldPointInLiveGroup
	nPts := vLen("points", 1, maxPts)
	var pts []models.Point
	var ages []int64
	for i := 0; i < nPts; i++ {
		age := vRange("age", -int64(24*time.Hour), int64(60*24*time.Hour)) // how far in the past
		ages = append(ages, age)
		pts = append(pts, vC08Point(before.UnixNano()-age))
	}
	m, err := w.MapShards(&WritePointsRequest{Database: "db", RetentionPolicy: "rp", Points: pts})
	after := time.Now()
	vAssume(after.Sub(before) < 5*time.Second)
	vAssert(err == nil, "C08.mapshards-ok")
	if err != nil {
		return
	}
	total := len(m.Dropped)
	for _, ps := range m.Points {
		total += len(ps)
	}
	vAssert(total == nPts, "C08.no-point-lost-or-duplicated")
	for i, p := range pts {
		dropped := false
		for _, q := range m.Dropped {
			if q == p {
				dropped = true
			}
		}
		t := before.UnixNano() - ages[i]
		if dropped {
			// dropped only if older than the retention period at some instant of the call
			vAssert(t < after.UnixNano()-int64(dur), "C08.dropped-only-if-older-than-retention")
		}
		if t < before.UnixNano()-int64(dur) {
			vAssert(dropped, "C08.older-than-retention-is-dropped")
		}
	}
	vReach("C08.cutoff.end")
}
