//go:build verif_harness

package tsm1

// C18-K1: which files of a backup archive become part of the restored shard
// (Engine.readFileFromBackup, the per-entry step of Engine.overlay used by restore and by
// shard copy): every file that influences reads - data files and their tombstones - must be
// installed.

import (
	"archive/tar"
	"bytes"
	"io"
	"os"
	"path/filepath"
	"strings"
)

func init() {
	vRegister("VerifHarness_C18_RestoreFileSelection", VerifHarness_C18_RestoreFileSelection)
}

type vC18Entry struct {
	name    string
	dir     bool
	content []byte
}

// engine-side model of archive/tar reading (native: a real tar stream)
var (
	vC18Entries []vC18Entry
	vC18Pos     int
	vC18Off     int
)

func vC18Archive(entries []vC18Entry) *tar.Reader {
	var buf bytes.Buffer
	tw := tar.NewWriter(&buf)
	for _, e := range entries {
		h := &tar.Header{Name: e.name, Mode: 0644, Size: int64(len(e.content)), Typeflag: tar.TypeReg}
		if e.dir {
			h.Typeflag, h.Mode, h.Size = tar.TypeDir, 0755, 0
		}
		if err := tw.WriteHeader(h); err != nil {
			panic(err)
		}
		if !e.dir {
			tw.Write(e.content)
		}
	}
	tw.Close()
	return tar.NewReader(&buf)
}

func vC18ArchiveModel(entries []vC18Entry) *tar.Reader {
	vC18Entries, vC18Pos, vC18Off = entries, -1, 0
	return &tar.Reader{}
}

func vC18TarNext(tr *tar.Reader) (*tar.Header, error) {
	vC18Pos++
	vC18Off = 0
	if vC18Pos >= len(vC18Entries) {
		return nil, io.EOF
	}
	e := vC18Entries[vC18Pos]
	h := &tar.Header{Name: e.name, Mode: 0644, Size: int64(len(e.content)), Typeflag: tar.TypeReg}
	if e.dir {
		h.Typeflag, h.Mode, h.Size = tar.TypeDir, 0755, 0
	}
	return h, nil
}

func vC18TarRead(tr *tar.Reader, b []byte) (int, error) {
	if vC18Pos < 0 || vC18Pos >= len(vC18Entries) {
		return 0, io.EOF
	}
	c := vC18Entries[vC18Pos].content
	if vC18Off >= len(c) {
		return 0, io.EOF
	}
	n := copy(b, c[vC18Off:])
	vC18Off += n
	return n, nil
}

func VerifHarness_C18_RestoreFileSelection() {
	dir, err := os.MkdirTemp("", "verif-restore-")
	if err != nil {
		panic(err)
	}
	defer os.RemoveAll(dir)
	e := &Engine{path: dir, FileStore: NewFileStore(dir), formatFileName: DefaultFormatFileName}
	prefix := filepath.Join("db", "rp", "7")
	asNew := vBool("asNew")
	hasTombstone := vBool("sourceHasPendingDeletes")
	foreign := vBool("archiveHasForeignShard")
	tsmBody := vBytes("tsmContent", vLen("tsmLen", 1, 3))
	var entries []vC18Entry
	if vBool("indexDirEntry") {
		entries = append(entries, vC18Entry{name: "db/rp/7/index", dir: true})
	}
	if foreign {
		entries = append(entries, vC18Entry{name: "db/rp/8/000000001-000000001.tsm", content: []byte{9}})
	}
	entries = append(entries, vC18Entry{name: "db/rp/7/000000001-000000001.tsm", content: tsmBody})
	if hasTombstone {
		entries = append(entries, vC18Entry{name: "db/rp/7/000000001-000000001.tombstone", content: []byte{1, 2, 3}})
	}
	entries = append(entries, vC18Entry{name: "db/rp/7/fields.idx", content: []byte{5}})
	tr := vC18Archive(entries)
	var installed []string
	for i := 0; i < len(entries)+1; i++ {
		name, err := e.readFileFromBackup(tr, prefix, asNew)
		if err == io.EOF {
			break
		}
		vAssert(err == nil, "C18.restore-entry-ok")
		if err != nil {
			return
		}
		if name != "" {
			installed = append(installed, name)
		}
	}
	// exactly one data file, with the archive's content, under a name the file store will load
	vAssert(len(installed) == 1, "C18.exactly-the-shards-data-files-are-installed")
	if len(installed) != 1 {
		return
	}
	vAssert(strings.HasPrefix(installed[0], dir) && strings.HasSuffix(installed[0], "."+TSMFileExtension+"."+TmpTSMFileExtension), "C18.data-file-staged-for-the-file-store")
	got, rerr := os.ReadFile(installed[0])
	vAssert(rerr == nil && bytes.Equal(got, tsmBody), "C18.data-file-content-preserved")
	if asNew {
		vAssert(strings.Contains(installed[0], "000000001-000000001.tsm"), "C18.as-new-uses-a-fresh-generation")
	}
	// pending deletes of the source must come along: a tombstone file for the installed data file
	if hasTombstone {
		base := strings.TrimSuffix(installed[0], "."+TSMFileExtension+"."+TmpTSMFileExtension)
		found := false
		ents, _ := os.ReadDir(dir)
		for _, de := range ents {
			if strings.HasPrefix(filepath.Join(dir, de.Name()), base) && strings.Contains(de.Name(), TombstoneFileExtension) {
				found = true
			}
		}
		// known finding C18-F1: every archive entry that does not end in "tsm" is skipped
		vAssertKF(found, "C18.pending-deletes-are-restored-with-the-data-file", true, "C18-F1")
	}
	vObserve("installed", len(installed))
	vReach("C18.restore.end")
}
