//go:build verif_harness

package tsm1

// C02-K2: the block cursor that reads one series key across overlapping TSM files
// (FileStore.locations, newKeyCursor, seek/next ascending and descending,
// KeyCursor.ReadIntegerArrayBlock / ReadIntegerBlock) against the last-write-wins model: the
// newest file holding a timestamp decides its value, tombstoned ranges of a file hide that file's
// points, the read starts at the seek time and is strictly monotone.
//
// The files are in-memory TSMFile values (sorted, disjoint blocks per file as the writer
// guarantees); the TSM reader/mmap layer is not part of this harness.

import (
	"context"

	"github.com/influxdata/influxdb/models"
	"github.com/influxdata/influxdb/tsdb"
)

func init() {
	vRegister("VerifHarness_C02_KeyCursor", VerifHarness_C02_KeyCursor)
}

type vC02File struct {
	TSMFile // every method not overridden panics (nil interface)
	path    string
	entries []IndexEntry
	blocks  [][]vC02P
	tombs   []TimeRange
}

func (f *vC02File) Path() string { return f.path }
func (f *vC02File) TimeRange() (int64, int64) {
	return f.entries[0].MinTime, f.entries[len(f.entries)-1].MaxTime
}
func (f *vC02File) TombstoneRange(key []byte) []TimeRange { return f.tombs }
func (f *vC02File) Entries(key []byte) []IndexEntry     { return f.entries }
func (f *vC02File) ReadEntries(key []byte, entries *[]IndexEntry) []IndexEntry {
	return f.entries
}
func (f *vC02File) Ref()   {}
func (f *vC02File) Unref() {}
func (f *vC02File) ReadIntegerArrayBlockAt(e *IndexEntry, values *tsdb.IntegerArray) error {
	src := f.blocks[e.Offset]
	values.Timestamps = values.Timestamps[:0]
	values.Values = values.Values[:0]
	for _, p := range src {
		values.Timestamps = append(values.Timestamps, p.t)
		values.Values = append(values.Values, p.v)
	}
	return nil
}
func (f *vC02File) ReadIntegerBlockAt(e *IndexEntry, values *[]IntegerValue) ([]IntegerValue, error) {
	src := f.blocks[e.Offset]
	out := (*values)[:0]
	for _, p := range src {
		out = append(out, IntegerValue{unixnano: p.t, value: p.v})
	}
	*values = out
	return out, nil
}

var vC02Paths = []string{"000000001-000000001.tsm", "000000002-000000001.tsm", "000000003-000000001.tsm"}

func VerifHarness_C02_KeyCursor() {
	key := []byte("cpu#!~#v")
	// 2..3 files; at most 3 blocks in total of 1..2 points each
	maxBlocks := 3
	nFiles := vLen("files", 2, 3)
	fs := &FileStore{}
	var files []*vC02File
	next := int64(100)
	total, points := 0, 0
	for f := 0; f < nFiles; f++ {
		room := maxBlocks - total - (nFiles - 1 - f) // leave one block for each later file
		if room > 2 {
			room = 2
		}
		nBlocks := vLen("blocksInFile", 1, room)
		total += nBlocks
		vf := &vC02File{path: vC02Paths[f]}
		var prev int64
		for b := 0; b < nBlocks; b++ {
			n := vLen("pointsInBlock", 1, 2)
			points += n
			var pts []vC02P
			for i := 0; i < n; i++ {
				// stored timestamps lie in the representable range the write path enforces
				t := vRange("t", models.MinNanoTime, models.MaxNanoTime)
				if b > 0 || i > 0 {
					vAssume(t > prev)
				}
				prev = t
				next++
				pts = append(pts, vC02P{t, next})
			}
			vf.entries = append(vf.entries, IndexEntry{MinTime: pts[0].t, MaxTime: pts[n-1].t, Offset: int64(b), Size: 1})
			vf.blocks = append(vf.blocks, pts)
		}
		if vThorough() && f == 0 && vBool("tombstone") {
			lo, hi := vInt64("tombMin"), vInt64("tombMax")
			vAssume(lo <= hi)
			vf.tombs = []TimeRange{{Min: lo, Max: hi}}
		}
		files = append(files, vf)
		fs.files = append(fs.files, vf)
	}
	// a query's seek time is its start (ascending) or end (descending) time, clamped by the
	// planner to [influxql.MinTime, influxql.MaxTime] = the same range
	seek := vRange("seek", models.MinNanoTime, models.MaxNanoTime)
	asc := vBool("ascending")
	array := true
	if vThorough() {
		array = vBool("arrayCursor") // thorough: both block readers (and a tombstone range, above)
	}
	vAssume(points <= 4) // at most 4 stored points (the uncapped form does not finish in 40 min)

	c := newKeyCursor(context.Background(), fs, key, seek, asc)
	var out []vC02P
	rounds := 0
	for {
		rounds++
		if rounds > 16 {
			break
		}
		var blk []vC02P
		if array {
			vals, err := c.ReadIntegerArrayBlock(&tsdb.IntegerArray{})
			vAssert(err == nil, "C02.cursor-no-error")
			if err != nil || vals.Len() == 0 {
				break
			}
			for i := range vals.Timestamps {
				blk = append(blk, vC02P{vals.Timestamps[i], vals.Values[i]})
			}
		} else {
			var buf []IntegerValue
			vals, err := c.ReadIntegerBlock(&buf)
			vAssert(err == nil, "C02.cursor-no-error")
			if err != nil || len(vals) == 0 {
				break
			}
			blk = vC02FromTyped(vals)
		}
		// inside a block values are ascending; a descending reader walks each block backwards
		vC02AssertAscending(blk, "C02.cursor-block-sorted")
		if asc {
			out = append(out, blk...)
		} else {
			for i := len(blk) - 1; i >= 0; i-- {
				out = append(out, blk[i])
			}
		}
		c.Next()
	}
	c.Close()
	vAssert(rounds <= 16, "C02.cursor-terminates")
	for i := 1; i < len(out); i++ {
		if asc {
			vAssert(out[i-1].t < out[i].t, "C02.read-strictly-monotone-no-duplicates")
		} else {
			vAssert(out[i-1].t > out[i].t, "C02.read-strictly-monotone-no-duplicates")
		}
	}
	// model: for every stored point that is visible (not tombstoned in its file, on the right side
	// of the seek time) the read returns its timestamp with the value of the newest visible write
	hidden := func(f *vC02File, t int64) bool {
		h := false
		for _, ts := range f.tombs {
			h = vOr(h, vAnd(ts.Min <= t, t <= ts.Max))
		}
		return h
	}
	inRange := func(t int64) bool {
		if asc {
			return t >= seek
		}
		return t <= seek
	}
	for fi, f := range files {
		for _, blk := range f.blocks {
			for _, p := range blk {
				visible := vAnd(!hidden(f, p.t), inRange(p.t))
				newest := p.v
				for fj := fi + 1; fj < len(files); fj++ {
					g := files[fj]
					for _, gb := range g.blocks {
						for _, q := range gb {
							newest = vIte64(vAnd(q.t == p.t, !hidden(g, q.t)), q.v, newest)
						}
					}
				}
				vAssert(vOr(!visible, vC02Has(out, p.t, newest)), "C02.read-returns-newest-visible-write")
			}
		}
	}
	// nothing else is returned: every returned point is a visible stored point
	for _, o := range out {
		known := false
		for _, f := range files {
			for _, blk := range f.blocks {
				for _, p := range blk {
					known = vOr(known, vAnd(vAnd(p.t == o.t, p.v == o.v), vAnd(!hidden(f, p.t), inRange(p.t))))
				}
			}
		}
		vAssert(known, "C02.read-returns-only-visible-stored-points")
	}
	vObserve("outPoints", len(out))
	vReach("C02.keycursor.end")
}
