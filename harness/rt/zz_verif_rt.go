//go:build verif_harness

package PKG

// Harness runtime, native side. In the symbolic engine every v* function below is intercepted
// by name; compiled natively they either replay a recorded input list ($VERIF_REPLAY) or draw
// random inputs ($VERIF_RANDOM=<seed>) and log inputs + observations for translator validation.

import (
	"encoding/json"
	"fmt"
	"math"
	"math/rand"
	"os"
	"strings"
)

type vInputRec struct {
	K string   `json:"k"`
	T string   `json:"t"`
	N int      `json:"n,omitempty"`
	V []uint64 `json:"v,omitempty"`
}

type vReplayFile struct {
	Harness string      `json:"harness"`
	Tier    string      `json:"tier"`
	Label   string      `json:"label,omitempty"`
	Inputs  []vInputRec `json:"inputs"`
}

type vAssumeFailed struct{}
type vAssertFailed struct{ label string }

var (
	vHarnesses = map[string]func(){}
	vIn        []vInputRec
	vPos       int
	vRnd       *rand.Rand
	vLog       []vInputRec
	vObs       []string
	vFailed    []string
	vReached   []string
	vTierName  = "quick"
)

func vRegister(name string, f func()) { vHarnesses[name] = f }

func vNext(kind, tag string) *vInputRec {
	if vRnd != nil {
		return nil
	}
	if vPos >= len(vIn) {
		panic(fmt.Sprintf("verif replay: ran out of inputs at %s %q", kind, tag))
	}
	for vPos < len(vIn) && (vIn[vPos].K == "now" || vIn[vPos].K == "env") { // engine-side clock readings / environment-model choices have no native counterpart
		vPos++
	}
	if vPos >= len(vIn) {
		panic(fmt.Sprintf("verif replay: ran out of inputs at %s %q", kind, tag))
	}
	r := &vIn[vPos]
	vPos++
	if r.K != kind {
		panic(fmt.Sprintf("verif replay: want %s %q, recorded %s %q", kind, tag, r.K, r.T))
	}
	return r
}

func vScalar(kind, tag string, bits uint) uint64 {
	var v uint64
	if r := vNext(kind, tag); r != nil {
		v = r.V[0]
	} else {
		switch vRnd.Intn(4) {
		case 0:
			v = uint64(vRnd.Intn(4))
		case 1:
			v = ^uint64(0) - uint64(vRnd.Intn(3))
		case 2:
			v = uint64(1) << uint(vRnd.Intn(64))
		default:
			v = vRnd.Uint64()
		}
		if bits < 64 {
			v &= (uint64(1) << bits) - 1
		}
		vLog = append(vLog, vInputRec{K: kind, T: tag, V: []uint64{v}})
	}
	return v
}

func vLen(tag string, lo, hi int) int {
	if hi < lo {
		panic(vAssumeFailed{})
	}
	if r := vNext("len", tag); r != nil {
		return r.N
	}
	n := lo + vRnd.Intn(hi-lo+1)
	vLog = append(vLog, vInputRec{K: "len", T: tag, N: n})
	return n
}

func vChoice(tag string, n int) int {
	if r := vNext("choice", tag); r != nil {
		return r.N
	}
	k := vRnd.Intn(n)
	vLog = append(vLog, vInputRec{K: "choice", T: tag, N: k})
	return k
}

// fork-free combinators for oracles (plain functions natively, single terms in the engine)
func vIte64(c bool, a, b int64) int64 {
	if c {
		return a
	}
	return b
}
func vAnd(a, b bool) bool { return a && b }
func vOr(a, b bool) bool  { return a || b }

// vEnvChoice is only called from engine-side environment models; natively it is random.
func vEnvChoice(tag string, n int) int { return rand.Intn(n) }

func vBool(tag string) bool       { return vScalar("bool", tag, 1) != 0 }
func vByte(tag string) byte       { return byte(vScalar("u8", tag, 8)) }
func vUint16(tag string) uint16   { return uint16(vScalar("u16", tag, 16)) }
func vUint32(tag string) uint32   { return uint32(vScalar("u32", tag, 32)) }
func vInt32(tag string) int32     { return int32(vScalar("i32", tag, 32)) }
func vInt64(tag string) int64     { return int64(vScalar("i64", tag, 64)) }
func vUint64(tag string) uint64   { return vScalar("u64", tag, 64) }
func vInt(tag string) int         { return int(vScalar("i64", tag, 64)) }
func vFloat64(tag string) float64 { return math.Float64frombits(vScalar("f64", tag, 64)) }

func vRange(tag string, lo, hi int64) int64 {
	if vRnd != nil {
		// draw inside the range so that random vectors are not all discarded
		var v int64
		if hi-lo >= 0 && hi-lo < math.MaxInt64 {
			v = lo + vRnd.Int63n(hi-lo+1)
		} else {
			v = int64(vRnd.Uint64())
		}
		vLog = append(vLog, vInputRec{K: "i64", T: tag, V: []uint64{uint64(v)}})
		vAssume(lo <= v && v <= hi)
		return v
	}
	v := int64(vScalar("i64", tag, 64))
	vAssume(lo <= v && v <= hi)
	return v
}

func vBytesRaw(kind, tag string, n int) []byte {
	b := make([]byte, n)
	if r := vNext(kind, tag); r != nil {
		if len(r.V) != n {
			panic(fmt.Sprintf("verif replay: %s %q length %d, recorded %d", kind, tag, n, len(r.V)))
		}
		for i := range b {
			b[i] = byte(r.V[i])
		}
		return b
	}
	rec := vInputRec{K: kind, T: tag, N: n, V: make([]uint64, n)}
	for i := range b {
		b[i] = byte(vRnd.Intn(256))
		rec.V[i] = uint64(b[i])
	}
	vLog = append(vLog, rec)
	return b
}

func vBytes(tag string, n int) []byte   { return vBytesRaw("bytes", tag, n) }
func vString(tag string, n int) string { return string(vBytesRaw("str", tag, n)) }

func vAssume(c bool) {
	if !c {
		panic(vAssumeFailed{})
	}
}

func vAssert(c bool, label string) {
	if !c {
		vFailed = append(vFailed, label)
	}
}

func vAssertKF(c bool, label string, known bool, finding string) {
	if !c {
		if known {
			vFailed = append(vFailed, label+"|"+finding)
		} else {
			vFailed = append(vFailed, label)
		}
	}
}

func vFail(label string)  { vFailed = append(vFailed, label) }
func vReach(label string) { vReached = append(vReached, label) }
func vThorough() bool     { return vTierName == "thorough" }
func vSymbolic() bool     { return false }

func vObserve(tag string, x interface{}) {
	var s string
	switch v := x.(type) {
	case bool:
		s = fmt.Sprintf("%v", v)
	case int:
		s = fmt.Sprintf("%d", uint64(v))
	case int8:
		s = fmt.Sprintf("%d", uint64(uint8(v)))
	case int16:
		s = fmt.Sprintf("%d", uint64(uint16(v)))
	case int32:
		s = fmt.Sprintf("%d", uint64(uint32(v)))
	case int64:
		s = fmt.Sprintf("%d", uint64(v))
	case uint:
		s = fmt.Sprintf("%d", uint64(v))
	case uint8:
		s = fmt.Sprintf("%d", uint64(v))
	case uint16:
		s = fmt.Sprintf("%d", uint64(v))
	case uint32:
		s = fmt.Sprintf("%d", uint64(v))
	case uint64:
		s = fmt.Sprintf("%d", v)
	case float64:
		s = fmt.Sprintf("%d", math.Float64bits(v))
	case string:
		s = fmt.Sprintf("%x", v)
	case []byte:
		s = fmt.Sprintf("%x", v)
	case nil:
		s = "nil"
	default:
		s = fmt.Sprintf("%T", x)
	}
	vObs = append(vObs, tag+"="+s)
}

type vOutcome struct {
	Harness  string      `json:"harness"`
	Status   string      `json:"status"` // ok | assume | assert | panic
	Failed   []string    `json:"failed,omitempty"`
	Panic    string      `json:"panic,omitempty"`
	Reached  []string    `json:"reached,omitempty"`
	Obs      []string    `json:"obs,omitempty"`
	Inputs   []vInputRec `json:"inputs,omitempty"`
}

func vRunOne(name string) (out vOutcome) {
	out.Harness = name
	f := vHarnesses[name]
	if f == nil {
		out.Status = "panic"
		out.Panic = "no such harness " + name
		return
	}
	vPos, vLog, vObs, vFailed, vReached = 0, nil, nil, nil, nil
	defer func() {
		r := recover()
		out.Obs, out.Reached, out.Inputs, out.Failed = vObs, vReached, vLog, vFailed
		switch r.(type) {
		case nil:
			out.Status = "ok"
			if len(vFailed) > 0 {
				out.Status = "assert"
			}
		case vAssumeFailed:
			out.Status = "assume"
		default:
			out.Status = "panic"
			out.Panic = strings.SplitN(fmt.Sprint(r), "\n", 2)[0]
			if len(vFailed) > 0 {
				out.Status = "assert"
			}
		}
	}()
	f()
	return
}

// vMain is called by the generated TestVerifReplay.
func vMain() (failed bool) {
	if p := os.Getenv("VERIF_REPLAY"); p != "" {
		data, err := os.ReadFile(p)
		if err != nil {
			panic(err)
		}
		var rf vReplayFile
		if err := json.Unmarshal(data, &rf); err != nil {
			panic(err)
		}
		vIn = rf.Inputs
		if rf.Tier != "" {
			vTierName = rf.Tier
		}
		out := vRunOne(rf.Harness)
		js, _ := json.Marshal(out)
		fmt.Printf("VERIF-OUTCOME %s\n", js)
		return out.Status == "assert" || out.Status == "panic"
	}
	if s := os.Getenv("VERIF_RANDOM"); s != "" {
		var seed int64
		var n int
		var names string
		fmt.Sscanf(s, "%d:%d:%s", &seed, &n, &names)
		if t := os.Getenv("VERIF_TIER"); t != "" {
			vTierName = t
		}
		for _, name := range strings.Split(names, ",") {
			for i := 0; i < n; i++ {
				vRnd = rand.New(rand.NewSource(seed + int64(i)*7919))
				out := vRunOne(name)
				js, _ := json.Marshal(out)
				fmt.Printf("VERIF-OUTCOME %s\n", js)
			}
		}
	}
	return false
}
