//go:build verif_harness

package PKG

// In-memory model of the file-system calls used by the code under test. In the symbolic engine
// the functions below replace os.OpenFile, (*os.File).Read/Write/Seek/... (per-check replacement
// table); natively they are dead code and the same harness runs against a real temp directory,
// so translator validation compares this model with the kernel's behaviour on every run.

import (
	"errors"
	"io"
	"io/fs"
	"os"
	"sort"
	"strings"
	"time"
)

type vfsFile struct {
	data    []byte
	mtimeNs int64
}

type vfsFD struct {
	name   string
	f      *vfsFile
	off    int64
	app    bool
	closed bool
}

type vfsWorld struct {
	files   map[string]*vfsFile
	fds     map[*os.File]*vfsFD
	dirs    map[string]bool
	clockNs int64
	// fault injection (engine-only harnesses): each fallible call may fail when enabled
	faults     bool
	faultCount int
	maxFaults  int
	log        []string // durable-step trace for ordering oracles
}

var vfs *vfsWorld

func vfsReset() {
	vfs = &vfsWorld{files: map[string]*vfsFile{}, fds: map[*os.File]*vfsFD{}, dirs: map[string]bool{}, clockNs: 1000000000}
}

func vfsW() *vfsWorld {
	if vfs == nil {
		vfsReset()
	}
	return vfs
}

var errVfsInjected = errors.New("vfs: injected I/O error")

func vfsFault(op string) bool {
	w := vfsW()
	if !w.faults || w.faultCount >= w.maxFaults {
		return false
	}
	if vBool("fault:" + op) {
		w.faultCount++
		w.log = append(w.log, "FAULT "+op)
		return true
	}
	return false
}

func vfsNotExist(op, name string) error {
	return &fs.PathError{Op: op, Path: name, Err: fs.ErrNotExist}
}

func vfsOpenFile(name string, flag int, perm os.FileMode) (*os.File, error) {
	w := vfsW()
	if vfsFault("open") {
		return nil, errVfsInjected
	}
	f := w.files[name]
	if f == nil {
		if flag&os.O_CREATE == 0 {
			return nil, vfsNotExist("open", name)
		}
		f = &vfsFile{mtimeNs: w.clockNs}
		w.files[name] = f
		w.log = append(w.log, "create "+name)
	} else if flag&os.O_TRUNC != 0 {
		f.data = nil
	}
	h := new(os.File)
	w.fds[h] = &vfsFD{name: name, f: f, app: flag&os.O_APPEND != 0}
	return h, nil
}

func vfsOpen(name string) (*os.File, error) { return vfsOpenFile(name, os.O_RDONLY, 0) }

func vfsCreate(name string) (*os.File, error) {
	return vfsOpenFile(name, os.O_RDWR|os.O_CREATE|os.O_TRUNC, 0666)
}

func vfsFDOf(h *os.File) (*vfsFD, error) {
	if h == nil {
		return nil, os.ErrInvalid
	}
	d := vfsW().fds[h]
	if d == nil {
		return nil, os.ErrInvalid
	}
	if d.closed {
		return nil, os.ErrClosed
	}
	return d, nil
}

func vfsRead(h *os.File, b []byte) (int, error) {
	d, err := vfsFDOf(h)
	if err != nil {
		return 0, err
	}
	if len(b) == 0 {
		return 0, nil
	}
	if vfsFault("read") {
		return 0, errVfsInjected
	}
	if d.off >= int64(len(d.f.data)) {
		return 0, io.EOF
	}
	n := copy(b, d.f.data[d.off:])
	d.off += int64(n)
	return n, nil
}

func vfsReadAt(h *os.File, b []byte, off int64) (int, error) {
	d, err := vfsFDOf(h)
	if err != nil {
		return 0, err
	}
	if off < 0 {
		return 0, errors.New("negative offset")
	}
	if off >= int64(len(d.f.data)) {
		return 0, io.EOF
	}
	n := copy(b, d.f.data[off:])
	if n < len(b) {
		return n, io.EOF
	}
	return n, nil
}

func vfsWrite(h *os.File, b []byte) (int, error) {
	d, err := vfsFDOf(h)
	if err != nil {
		return 0, err
	}
	if vfsFault("write") {
		return 0, errVfsInjected
	}
	w := vfsW()
	if d.app {
		d.off = int64(len(d.f.data))
	}
	end := d.off + int64(len(b))
	for int64(len(d.f.data)) < end {
		d.f.data = append(d.f.data, 0)
	}
	copy(d.f.data[d.off:end], b)
	d.off = end
	w.clockNs += 1000000000
	d.f.mtimeNs = w.clockNs
	return len(b), nil
}

func vfsWriteString(h *os.File, s string) (int, error) { return vfsWrite(h, []byte(s)) }

// vfsReadFrom models (*os.File).ReadFrom (io.Copy's fast path): plain read/write loop.
func vfsReadFrom(h *os.File, r io.Reader) (int64, error) {
	var total int64
	buf := make([]byte, 64)
	for {
		n, err := r.Read(buf)
		if n > 0 {
			if _, werr := vfsWrite(h, buf[:n]); werr != nil {
				return total, werr
			}
			total += int64(n)
		}
		if err == io.EOF {
			return total, nil
		}
		if err != nil {
			return total, err
		}
	}
}

// vfsWriteTo models (*os.File).WriteTo.
func vfsWriteTo(h *os.File, w io.Writer) (int64, error) {
	var total int64
	buf := make([]byte, 64)
	for {
		n, err := vfsRead(h, buf)
		if n > 0 {
			if _, werr := w.Write(buf[:n]); werr != nil {
				return total, werr
			}
			total += int64(n)
		}
		if err == io.EOF {
			return total, nil
		}
		if err != nil {
			return total, err
		}
	}
}

func vfsSeek(h *os.File, offset int64, whence int) (int64, error) {
	d, err := vfsFDOf(h)
	if err != nil {
		return 0, err
	}
	var n int64
	switch whence {
	case io.SeekStart:
		n = offset
	case io.SeekCurrent:
		n = d.off + offset
	case io.SeekEnd:
		n = int64(len(d.f.data)) + offset
	default:
		return 0, os.ErrInvalid
	}
	if n < 0 {
		return 0, &fs.PathError{Op: "seek", Path: d.name, Err: os.ErrInvalid}
	}
	d.off = n
	return n, nil
}

func vfsSync(h *os.File) error {
	if _, err := vfsFDOf(h); err != nil {
		return err
	}
	if vfsFault("sync") {
		return errVfsInjected
	}
	return nil
}

func vfsTruncateFD(h *os.File, size int64) error {
	d, err := vfsFDOf(h)
	if err != nil {
		return err
	}
	if vfsFault("truncate") {
		return errVfsInjected
	}
	return vfsTruncData(d.f, size)
}

func vfsTruncData(f *vfsFile, size int64) error {
	if size < 0 {
		return os.ErrInvalid
	}
	if size <= int64(len(f.data)) {
		f.data = f.data[:size]
	} else {
		for int64(len(f.data)) < size {
			f.data = append(f.data, 0)
		}
	}
	w := vfsW()
	w.clockNs += 1000000000
	f.mtimeNs = w.clockNs
	return nil
}

func vfsTruncate(name string, size int64) error {
	f := vfsW().files[name]
	if f == nil {
		return vfsNotExist("truncate", name)
	}
	return vfsTruncData(f, size)
}

func vfsClose(h *os.File) error {
	d, err := vfsFDOf(h)
	if err != nil {
		return err
	}
	d.closed = true
	return nil
}

func vfsName(h *os.File) string {
	if h == nil {
		panic("vfs: Name on nil *os.File")
	}
	d := vfsW().fds[h]
	if d == nil {
		return ""
	}
	return d.name
}

type vfsInfo struct {
	name  string
	size  int64
	mtime int64
	dir   bool
}

func (i vfsInfo) Name() string       { return i.name }
func (i vfsInfo) Size() int64        { return i.size }
func (i vfsInfo) Mode() fs.FileMode  { return 0600 }
func (i vfsInfo) ModTime() time.Time { return time.Unix(0, i.mtime) }
func (i vfsInfo) IsDir() bool        { return i.dir }
func (i vfsInfo) Sys() interface{}   { return nil }

func vfsBase(name string) string {
	if i := strings.LastIndexByte(name, '/'); i >= 0 {
		return name[i+1:]
	}
	return name
}

func vfsStat(name string) (os.FileInfo, error) {
	w := vfsW()
	if vfsFault("stat") {
		return nil, errVfsInjected
	}
	if f := w.files[name]; f != nil {
		return vfsInfo{name: vfsBase(name), size: int64(len(f.data)), mtime: f.mtimeNs}, nil
	}
	if w.dirs[name] {
		return vfsInfo{name: vfsBase(name), dir: true}, nil
	}
	return nil, vfsNotExist("stat", name)
}

func vfsFileStat(h *os.File) (os.FileInfo, error) {
	d, err := vfsFDOf(h)
	if err != nil {
		return nil, err
	}
	return vfsInfo{name: vfsBase(d.name), size: int64(len(d.f.data)), mtime: d.f.mtimeNs}, nil
}

func vfsRemove(name string) error {
	w := vfsW()
	if vfsFault("remove") {
		return errVfsInjected
	}
	if w.files[name] == nil {
		return vfsNotExist("remove", name)
	}
	delete(w.files, name)
	w.log = append(w.log, "remove "+name)
	return nil
}

func vfsRemoveAll(dir string) error {
	w := vfsW()
	var names []string
	for n := range w.files {
		if n == dir || strings.HasPrefix(n, dir+"/") {
			names = append(names, n)
		}
	}
	for _, n := range names {
		delete(w.files, n)
	}
	delete(w.dirs, dir)
	return nil
}

func vfsRename(from, to string) error {
	w := vfsW()
	if vfsFault("rename") {
		return errVfsInjected
	}
	f := w.files[from]
	if f == nil {
		return vfsNotExist("rename", from)
	}
	delete(w.files, from)
	w.files[to] = f
	for _, d := range w.fds {
		if d.f == f {
			d.name = to
		}
	}
	w.log = append(w.log, "rename "+from+" -> "+to)
	return nil
}

func vfsMkdirAll(dir string, perm os.FileMode) error {
	vfsW().dirs[dir] = true
	return nil
}

type vfsDirEntry struct{ info vfsInfo }

func (e vfsDirEntry) Name() string               { return e.info.name }
func (e vfsDirEntry) IsDir() bool                { return e.info.dir }
func (e vfsDirEntry) Type() fs.FileMode          { return 0 }
func (e vfsDirEntry) Info() (fs.FileInfo, error) { return e.info, nil }

func vfsReadDir(dir string) ([]os.DirEntry, error) {
	w := vfsW()
	if vfsFault("readdir") {
		return nil, errVfsInjected
	}
	var names []string
	for n := range w.files {
		if strings.HasPrefix(n, dir+"/") && !strings.Contains(n[len(dir)+1:], "/") {
			names = append(names, n)
		}
	}
	sort.Strings(names)
	var out []os.DirEntry
	for _, n := range names {
		f := w.files[n]
		out = append(out, vfsDirEntry{vfsInfo{name: vfsBase(n), size: int64(len(f.data)), mtime: f.mtimeNs}})
	}
	return out, nil
}

// vfsGlob supports the patterns the storage engine uses: one '*' in the last path element.
func vfsGlob(pattern string) ([]string, error) {
	star := strings.IndexByte(pattern, '*')
	if star < 0 {
		if vfsW().files[pattern] != nil {
			return []string{pattern}, nil
		}
		return nil, nil
	}
	prefix, suffix := pattern[:star], pattern[star+1:]
	if strings.ContainsAny(suffix, "*?[/") {
		panic("vfs: unsupported glob pattern " + pattern)
	}
	var out []string
	for n := range vfsW().files {
		if len(n) >= len(prefix)+len(suffix) && strings.HasPrefix(n, prefix) && strings.HasSuffix(n, suffix) && !strings.Contains(n[len(prefix):], "/") {
			out = append(out, n)
		}
	}
	sort.Strings(out)
	return out, nil
}

func vfsReadFile(name string) ([]byte, error) {
	f := vfsW().files[name]
	if f == nil {
		return nil, vfsNotExist("open", name)
	}
	return append([]byte(nil), f.data...), nil
}

func vfsWriteFile(name string, data []byte, perm os.FileMode) error {
	w := vfsW()
	f := w.files[name]
	if f == nil {
		f = &vfsFile{}
		w.files[name] = f
	}
	f.data = append([]byte(nil), data...)
	w.clockNs += 1000000000
	f.mtimeNs = w.clockNs
	return nil
}

func vfsMkdirTemp(dir, pattern string) (string, error) {
	vfsReset()
	vfs.dirs["/vfs"] = true
	return "/vfs", nil
}

// vfsMmap models a read-only file-backed mapping (or an anonymous one for a nil file) as a copy
// of the file model's bytes.
func vfsMmap(f *os.File, offset int64, length int) ([]byte, error) {
	b := make([]byte, length)
	if f == nil {
		return b, nil
	}
	if _, err := vfsReadAt(f, b, 0); err != nil && err != io.EOF {
		return nil, err
	}
	return b, nil
}
