//go:build verif_harness

package tsm1

// C01-K2b: a crash during a cache snapshot leaves closed, non-empty WAL segments plus an empty
// newest one (WriteSnapshot rolls the segment first and removes the closed ones only after the
// TSM file is committed). Recovery from that directory, a further acknowledged write and a second
// recovery return every acknowledged point, old and new, with the newest value per timestamp.

import (
	"os"
	"path/filepath"
)

func init() {
	vRegister("VerifHarness_C01_EmptyNewestSegment", VerifHarness_C01_EmptyNewestSegment)
}

func VerifHarness_C01_EmptyNewestSegment() {
	dir, err := os.MkdirTemp("", "verif-wal-")
	if err != nil {
		panic(err)
	}
	defer os.RemoveAll(dir)
	// 1..2 closed segments with one acknowledged write each; ids start at 1 or higher
	firstID := vLen("firstSegmentID", 1, 3)
	nOld := vLen("closedSegments", 1, 2)
	var acked []vC01Pt
	id := firstID
	for i := 0; i < nOld; i++ {
		v := vInt64("oldValue")
		seg := vC01Frame(&WriteWALEntry{Values: map[string][]Value{"cpu": {NewIntegerValue(int64(i+1), v)}}})
		vAssume(os.WriteFile(filepath.Join(dir, vC01SegmentName(id)), seg, 0666) == nil)
		acked = append(acked, vC01Pt{"cpu", int64(i + 1), v})
		id++
	}
	// the empty newest segment (absent when the crash hit before it was created)
	if vBool("emptyNewestSegmentExists") {
		vAssume(os.WriteFile(filepath.Join(dir, vC01SegmentName(id)), nil, 0666) == nil)
	}

	w, cache, err := vC01Recover(dir)
	vAssert(err == nil, "C01.recovery-ok")
	if err != nil {
		return
	}
	for _, p := range acked {
		vAssert(vC01InCache(cache, p), "C01.acknowledged-write-survives-recovery")
	}
	// a further acknowledged write; it may overwrite the first old timestamp with a new value
	t := int64(vLen("newTimestamp", 1, 3))
	nv := vInt64("newValue")
	_, werr := w.WriteMulti(map[string][]Value{"cpu": {NewIntegerValue(t, nv)}})
	vAssert(werr == nil, "C01.write-after-recovery-ok")
	vAssert(w.Close() == nil, "C01.close-ok")
	if werr != nil {
		return
	}

	_, cache2, err := vC01Recover(dir)
	vAssert(err == nil, "C01.recovery-ok")
	if err != nil {
		return
	}
	vAssert(vC01Has(cache2, "cpu", t, nv), "C01.write-acknowledged-after-recovery-survives-next-recovery")
	for _, p := range acked {
		if p.t != t {
			vAssert(vC01InCache(cache2, p), "C01.older-acknowledged-write-survives-second-recovery")
		}
	}
	vReach("C01.emptynewest.end")
}

func vC01SegmentName(id int) string {
	// WALFilePrefix + %05d + "." + WALFileExtension
	s := []byte("_00000.wal")
	s[5] = byte('0' + id%10)
	s[4] = byte('0' + (id/10)%10)
	return string(s)
}
