//go:build verif_harness

package coordinator

// C03: PointsWriter.writeToShardWithContext against the consistency-level statement, for every
// combination of per-owner outcomes, coordinator position, arrival order and time-out point.

import (
	"context"
	"errors"
	"time"

	"github.com/influxdata/influxdb/models"
	"github.com/influxdata/influxdb/services/hh"
	"github.com/influxdata/influxdb/services/meta"
	"github.com/influxdata/influxdb/tsdb"
)

func init() {
	vRegister("VerifHarness_C03_WriteToShard", VerifHarness_C03_WriteToShard)
}

const vC03MaxOwners = 5

type vC03World struct {
	local        uint64
	stored       [vC03MaxOwners + 2]bool
	hhOffers     [vC03MaxOwners + 2]int
	hhAccepted   [vC03MaxOwners + 2]bool
	queueNonEmp  [vC03MaxOwners + 2]bool
	retryable    [vC03MaxOwners + 2]bool // direct write attempted and failed retryably
	permanent    [vC03MaxOwners + 2]bool // direct write attempted and rejected permanently
	directTried  [vC03MaxOwners + 2]bool
	localWrites  int
	createCalls  int
	localOutcome int
}

// --- MetaClient
type vC03Meta struct{ w *vC03World }

func (m vC03Meta) NodeID() uint64                                { return m.w.local }
func (m vC03Meta) Database(name string) *meta.DatabaseInfo       { return nil }
func (m vC03Meta) RetentionPolicy(d, p string) (*meta.RetentionPolicyInfo, error) {
	return nil, nil
}
func (m vC03Meta) CreateShardGroup(d, p string, t time.Time) (*meta.ShardGroupInfo, error) {
	return nil, nil
}

// --- TSDBStore (local owner)
type vC03Store struct{ w *vC03World }

func (s vC03Store) CreateShard(database, rp string, shardID uint64, enabled bool) error {
	s.w.createCalls++
	if s.w.localOutcome == 2 {
		return errors.New("create shard failed")
	}
	return nil
}

func (s vC03Store) WriteToShard(shardID uint64, points []models.Point) error {
	vC03Delay(s.w.local)
	s.w.localWrites++
	switch s.w.localOutcome {
	case 0:
		s.w.stored[s.w.local] = true
		return nil
	case 1, 2, 3:
		if s.w.localWrites == 1 {
			return tsdb.ErrShardNotFound
		}
		if s.w.localOutcome == 1 {
			s.w.stored[s.w.local] = true
			return nil
		}
		return errors.New("engine: write failed after create")
	}
	return errors.New("engine: disk error")
}

// --- ShardWriter (remote owners)
type vC03Remote struct{ w *vC03World }

func (r vC03Remote) WriteShard(shardID, ownerID uint64, points []models.Point) error {
	vC03Delay(ownerID)
	r.w.directTried[ownerID] = true
	switch vChoice("remoteOutcome", 4) {
	case 0:
		r.w.stored[ownerID] = true
		return nil
	case 1:
		r.w.retryable[ownerID] = true
		return errors.New("dial tcp: connection refused")
	case 2:
		r.w.permanent[ownerID] = true
		return errors.New("partial write: points beyond retention policy dropped=1")
	}
	r.w.permanent[ownerID] = true
	return errors.New("field type conflict: input field \"v\" on measurement \"m\" is type integer, already exists as type float")
}

// --- HintedHandoff
type vC03HH struct{ w *vC03World }

func (h vC03HH) Empty(shardID, ownerID uint64) bool {
	vC03Delay(ownerID)
	ne := vBool("queueNonEmpty")
	h.w.queueNonEmp[ownerID] = ne
	return !ne
}

func (h vC03HH) WriteShard(shardID, ownerID uint64, points []models.Point) error {
	h.w.hhOffers[ownerID]++
	switch vChoice("hhOutcome", 3) {
	case 0:
		h.w.hhAccepted[ownerID] = true
		return nil
	case 1:
		return hh.ErrQueueFull
	}
	return hh.ErrQueueBlocked
}

// vC03Delay makes results arrive in owner order in the native build (the engine ignores
// time.Sleep and delivers results in spawn order, which is the same order). Arrival order needs no
// separate quantification: outcomes are arbitrary per owner index and the code treats owners
// symmetrically, so every (outcome, arrival position) pairing is covered.
func vC03Delay(owner uint64) { time.Sleep(time.Duration(owner) * 25 * time.Millisecond) }

func VerifHarness_C03_WriteToShard() {
	maxN := 3
	if vThorough() {
		maxN = 4
	}
	n := vLen("owners", 1, maxN)
	world := &vC03World{}
	localIdx := vLen("coordinatorPos", 0, n) // == n: coordinator is not an owner
	world.local = uint64(localIdx + 1)
	isOwner := localIdx < n
	if isOwner {
		world.localOutcome = vChoice("localOutcome", 5)
	}
	consistency := models.ConsistencyLevel(vChoice("consistency", 4))
	closed := vBool("serviceClosing")
	timeoutFires := vBool("timeoutFires")
	if n == 4 {
		// four owners (thorough tier): the coordinator is the first owner or no owner (the code
		// treats owners symmetrically), no shutdown and no timeout (covered with up to 3 owners)
		vAssume(!closed && !timeoutFires && (localIdx == 0 || localIdx == n))
	}

	w := NewPointsWriter()
	w.AllowOutOfOrderWrites = vBool("allowOutOfOrder")
	w.MetaClient = vC03Meta{world}
	w.TSDBStore = vC03Store{world}
	w.ShardWriter = vC03Remote{world}
	w.HintedHandoff = vC03HH{world}
	if timeoutFires {
		w.WriteTimeout = time.Millisecond // native: fires before the first (delayed) result
	}
	w.closing = make(chan struct{})
	if closed {
		close(w.closing)
	}
	shard := &meta.ShardInfo{ID: 7}
	for i := 0; i < n; i++ {
		shard.Owners = append(shard.Owners, meta.ShardOwner{NodeID: uint64(i + 1)})
	}
	pts := []models.Point{nil}

	err := w.writeToShardWithContext(context.Background(), shard, "db", "rp", consistency, pts)
	// native build: let the per-owner goroutines finish before reading their records (no-op in the engine)
	time.Sleep(time.Duration(n+2) * 60 * time.Millisecond)

	stored, queued := 0, 0
	for i := 1; i <= n; i++ {
		if world.stored[i] {
			stored++
		}
		if world.hhAccepted[i] {
			queued++
		}
	}
	met := false
	switch consistency {
	case models.ConsistencyLevelAny:
		met = stored >= 1 || queued >= 1
	case models.ConsistencyLevelOne:
		met = stored >= 1
	case models.ConsistencyLevelQuorum:
		met = stored >= n/2+1
	case models.ConsistencyLevelAll:
		met = stored == n
	}
	timedOut := err == ErrTimeout
	// the engine's select may fire the timer at any iteration; natively it fires iff timeoutFires
	// and a closed service makes the first select return ErrWriteFailed (results arrive later).
	// Paths discarded here are covered by the not-closed / no-timeout paths with the same outcomes.
	if closed {
		vAssume(err == ErrWriteFailed)
	} else {
		vAssume(timedOut == timeoutFires)
	}
	vObserve("err-nil", err == nil)
	vObserve("stored", stored)
	vObserve("queued", queued)

	// (i) success only if the level was met
	vAssert(err != nil || met, "C03.success-implies-level-met")

	// (ii) level met within the timeout => success. Known finding C03-F1: under `any`, owners that
	// were only queued behind a non-empty handoff queue are not counted.
	onlyQueuedBehindNonEmpty := consistency == models.ConsistencyLevelAny && stored == 0 && queued >= 1
	if onlyQueuedBehindNonEmpty {
		// every accepted handoff must be of the "queue already non-empty" kind for the exclusion
		for i := 1; i <= n; i++ {
			if world.hhAccepted[i] && !world.queueNonEmp[i] {
				onlyQueuedBehindNonEmpty = false
			}
		}
	}
	if !timedOut && !closed {
		vAssertKF(!met || err == nil, "C03.level-met-implies-success", onlyQueuedBehindNonEmpty, "C03-F1")
	}

	// (iii) handoff offered exactly once to exactly the remote owners that failed retryably or sit
	// behind a non-empty queue; never to the local owner; never after a permanent rejection.
	for i := 1; i <= n; i++ {
		if uint64(i) == world.local {
			vAssert(world.hhOffers[i] == 0, "C03.no-handoff-for-local-owner")
			continue
		}
		want := 0
		if world.retryable[i] || (world.queueNonEmp[i] && !w.AllowOutOfOrderWrites) {
			want = 1
		}
		vAssert(world.hhOffers[i] == want, "C03.handoff-exactly-once")
		if world.permanent[i] {
			vAssert(world.hhOffers[i] == 0, "C03.no-handoff-after-permanent-rejection")
		}
		if world.queueNonEmp[i] && !w.AllowOutOfOrderWrites {
			vAssert(!world.directTried[i], "C03.no-direct-write-past-nonempty-queue")
		}
	}

	// (iv) too few successes => partial write; none => failure
	if err != nil && !timedOut && !closed {
		successes := stored
		if consistency == models.ConsistencyLevelAny {
			successes += queued
		}
		vAssertKF((err == ErrPartialWrite) == (successes > 0), "C03.partial-vs-failed", onlyQueuedBehindNonEmpty, "C03-F1")
	}
	if closed || timedOut {
		vReach("C03.end.interrupted")
	} else if err == nil {
		vReach("C03.end.success")
	} else {
		vReach("C03.end.failure")
	}
}
