//go:build verif_harness

package tsm1

// C10-K1: tombstone interval algebra of the TSM index (indirectIndex.DeleteRange / Delete /
// ContainsValue / TombstoneRange) and of the cache (Cache.DeleteRange): a delete removes exactly
// the inclusive time range of the targeted key and nothing else.

func init() {
	vRegister("VerifHarness_C10_IndexDeleteRange", VerifHarness_C10_IndexDeleteRange)
	vRegister("VerifHarness_C10_CacheDeleteRange", VerifHarness_C10_CacheDeleteRange)
}

// engine-side model of the anonymous mmap used for the offsets table
func vC10Mmap(f interface{}, offset int64, length int) ([]byte, error) { return make([]byte, length), nil }

type vC10Range struct{ min, max int64 }

func VerifHarness_C10_IndexDeleteRange() {
	// index with key "cpu" (1..2 blocks with symbolic time ranges) and an untouched key "mem"
	maxEntries := 1
	if vThorough() {
		maxEntries = 2
	}
	nEntries := vLen("indexEntries", 1, maxEntries)
	var entries []vC10Range
	w := NewIndexWriter()
	prev := int64(0)
	for i := 0; i < nEntries; i++ {
		lo, hi := vInt64("blockMin"), vInt64("blockMax")
		vAssume(lo <= hi)
		if i > 0 {
			vAssume(lo > prev)
		}
		prev = hi
		entries = append(entries, vC10Range{lo, hi})
		w.Add([]byte("cpu"), BlockInteger, lo, hi, int64(10+i*20), 20)
	}
	memLo, memHi := vInt64("otherMin"), vInt64("otherMax")
	vAssume(memLo <= memHi)
	w.Add([]byte("mem"), BlockInteger, memLo, memHi, 100, 20)
	b, err := w.MarshalBinary()
	vAssume(err == nil)
	idx := NewIndirectIndex()
	vAssume(idx.UnmarshalBinary(b) == nil)

	maxDel := 2
	nDel := vLen("deletes", 1, maxDel)
	var dels []vC10Range
	for i := 0; i < nDel; i++ {
		r := vC10Range{vInt64("deleteMin"), vInt64("deleteMax")}
		dels = append(dels, r)
		idx.DeleteRange([][]byte{[]byte("cpu")}, r.min, r.max)
	}

	t := vInt64("probe")
	inBlock := false
	for _, e := range entries {
		inBlock = vOr(inBlock, vAnd(e.min <= t, t <= e.max))
	}
	deleted := false
	for _, d := range dels {
		deleted = vOr(deleted, vAnd(d.min <= t, t <= d.max))
	}
	got := idx.ContainsValue([]byte("cpu"), t)
	// the index answers per block range: a probe inside a block's range "might exist" unless deleted
	vAssert(got == vAnd(inBlock, !deleted), "C10.delete-removes-exactly-the-inclusive-range")
	// the untouched key keeps everything
	to := vInt64("otherProbe")
	vAssert(idx.ContainsValue([]byte("mem"), to) == vAnd(memLo <= to, to <= memHi), "C10.delete-leaves-other-keys-alone")
	vAssert(len(idx.TombstoneRange([]byte("mem"))) == 0, "C10.delete-leaves-other-keys-alone")
	vObserve("contains", got)
	vReach("C10.index.end")
}

// Cache.DeleteRange removes exactly the inclusive range of the targeted key.
func VerifHarness_C10_CacheDeleteRange() {
	c := NewCache(1 << 30)
	n := vLen("points", 1, 3)
	type pt struct{ t, v int64 }
	var pts []pt
	var vals []Value
	for i := 0; i < n; i++ {
		p := pt{vInt64("t"), int64(100 + i)}
		for _, q := range pts {
			vAssume(q.t != p.t)
		}
		pts = append(pts, p)
		vals = append(vals, NewIntegerValue(p.t, p.v))
	}
	vAssume(c.WriteMulti(map[string][]Value{"cpu": vals, "mem": {NewIntegerValue(5, 55)}}) == nil)
	lo, hi := vInt64("deleteMin"), vInt64("deleteMax")
	c.DeleteRange([][]byte{[]byte("cpu")}, lo, hi)
	got := c.Values([]byte("cpu"))
	for _, p := range pts {
		present := false
		for _, g := range got {
			present = vOr(present, vAnd(g.UnixNano() == p.t, g.Value().(int64) == p.v))
		}
		vAssert(present == !vAnd(lo <= p.t, p.t <= hi), "C10.cache-delete-removes-exactly-the-inclusive-range")
	}
	for _, g := range got {
		known := false
		for _, p := range pts {
			known = vOr(known, g.UnixNano() == p.t)
		}
		vAssert(known, "C10.cache-delete-invents-nothing")
	}
	other := c.Values([]byte("mem"))
	vAssert(len(other) == 1 && other[0].UnixNano() == 5, "C10.delete-leaves-other-keys-alone")
	vObserve("left", len(got))
	vReach("C10.cache.end")
}
