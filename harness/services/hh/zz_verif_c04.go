//go:build verif_harness

package hh

// C04: the hinted-handoff queue/segment as a state machine over the file-system model, checked
// against a reference list of pending blocks.

import (
	"bytes"
	"io"
	"os"
)

func init() {
	vRegister("VerifHarness_C04_QueueHistory", VerifHarness_C04_QueueHistory)
	vRegister("VerifHarness_C04_QueueBufferedClose", VerifHarness_C04_QueueBufferedClose)
	vRegister("VerifHarness_C04_BufferedBurst", VerifHarness_C04_BufferedBurst)
}

func vC04Dir() string {
	dir, err := os.MkdirTemp("", "verif-hh-")
	if err != nil {
		panic(err)
	}
	return dir
}

func vC04Open(dir string, maxSize int64, segSize int64) *queue {
	q, err := newQueue(dir, maxSize, 32)
	vAssume(err == nil)
	vAssume(q.Open() == nil)
	if segSize > 0 {
		vAssume(q.SetMaxSegmentSize(segSize) == nil)
	}
	return q
}

// vC04Next is the consumer protocol of NodeProcessor.SendWrite: Current; on io.EOF the caller
// advances (which trims an exhausted head segment) and retries on its next round.
func vC04Next(q *queue) ([]byte, error) {
	b, err := q.Current()
	if err == io.EOF {
		if aerr := q.Advance(); aerr != nil {
			return nil, aerr
		}
		b, err = q.Current()
	}
	return b, err
}

// Bounded histories from a fresh queue: append (0..2 symbolic bytes), read head, advance,
// clean close + reopen; segment size small enough that blocks roll over to new segments.
func VerifHarness_C04_QueueHistory() {
	dir := vC04Dir()
	defer os.RemoveAll(dir)
	segSize := int64(0)
	switch vChoice("segmentSize", 3) {
	case 1:
		segSize = 19 // one or two small blocks per segment
	case 2:
		segSize = 30
	}
	maxSize := int64(1 << 20)
	if vBool("tightMaxSize") {
		maxSize = 40
	}
	q := vC04Open(dir, maxSize, segSize)
	var pending [][]byte
	maxOps := 4
	if vThorough() {
		maxOps = 6
	}
	nops := vLen("ops", 1, maxOps)
	lastOp := -1
	for i := 0; i < nops; i++ {
		op := vChoice("op", 4)
		lastOp = op
		switch op {
		case 0: // append
			b := vBytes("block", vLen("blockLen", 0, 2))
			usage := q.diskUsage()
			err := q.Append(b)
			if err == nil {
				pending = append(pending, b)
			}
			vAssert((err == ErrQueueFull) == (usage+int64(len(b)) > maxSize), "C04.queue-full-iff-over-max-size")
			if err != nil {
				vAssert(err == ErrQueueFull || err == ErrSegmentFull, "C04.append-error-kind")
			}
		case 1: // read the head block
			b, err := vC04Next(q)
			if len(pending) == 0 {
				vAssert(err == io.EOF, "C04.current-eof-iff-empty")
			} else {
				vAssert(err == nil, "C04.current-returns-head")
				vAssert(err != nil || bytes.Equal(b, pending[0]), "C04.current-is-oldest-pending-block")
			}
		case 2: // advance past the head block (the consumer only does so after reading it)
			b, err := vC04Next(q)
			if err == nil {
				vAssert(len(pending) > 0 && bytes.Equal(b, pending[0]), "C04.current-is-oldest-pending-block")
				vAssert(q.Advance() == nil, "C04.advance-ok")
				if len(pending) > 0 {
					pending = pending[1:]
				}
			} else {
				vAssert(len(pending) == 0 && err == io.EOF, "C04.current-eof-iff-empty")
			}
		case 3: // clean restart
			vAssert(q.Close() == nil, "C04.close-ok")
			q = vC04Open(dir, maxSize, segSize)
		}
		empty := q.Empty()
		// known finding C04-F1: Empty() compares head.pos with the tail's *file offset*, which the
		// last read leaves just behind the head's length prefix
		vAssertKF(empty == (len(pending) == 0), "C04.empty-iff-nothing-pending", empty && len(pending) > 0, "C04-F1")
	}
	_ = lastOp
	// drain: everything accepted and not yet advanced comes out, in order, exactly once
	for k := 0; k < len(pending); k++ {
		b, err := vC04Next(q)
		vAssert(err == nil && bytes.Equal(b, pending[k]), "C04.drain-in-order")
		if err != nil {
			break
		}
		vAssert(q.Advance() == nil, "C04.advance-ok")
	}
	_, err := vC04Next(q)
	vAssert(err == io.EOF, "C04.drained-queue-is-eof")
	vObserve("pending", len(pending))
	q.Close()
	vReach("C04.history.end")
}

// A burst of buffered appends (>= 10 writers hold limiter tokens) that may roll the tail segment
// over, followed by the end of the burst (the other writers leave without appending, e.g. their
// blocks were over the queue's size limit) and either one more ordinary append or a clean
// restart: every accepted block is delivered, in order.
func VerifHarness_C04_BufferedBurst() {
	dir := vC04Dir()
	defer os.RemoveAll(dir)
	segSize := int64(0)
	switch vChoice("segmentSize", 3) {
	case 1:
		segSize = 19
	case 2:
		segSize = 30
	}
	q := vC04Open(dir, 1<<20, segSize)
	for i := 0; i < 9; i++ {
		q.limiter <- struct{}{}
	}
	var pending [][]byte
	max := 3
	if vThorough() {
		max = 4
	}
	n := vLen("bufferedAppends", 1, max)
	for i := 0; i < n; i++ {
		b := vBytes("block", vLen("blockLen", 0, 2))
		if err := q.Append(b); err == nil {
			pending = append(pending, b)
		} else {
			vAssert(err == ErrSegmentFull, "C04.append-error-kind")
		}
	}
	// the burst ends
	for i := 0; i < 9; i++ {
		<-q.limiter
	}
	if vBool("restartInsteadOfAppend") {
		vAssert(q.Close() == nil, "C04.close-ok")
		q = vC04Open(dir, 1<<20, segSize)
	} else {
		marker := []byte{0xAA}
		if q.Append(marker) == nil {
			pending = append(pending, marker)
		}
	}
	for k := 0; k < len(pending); k++ {
		b, err := vC04Next(q)
		vAssert(err == nil && bytes.Equal(b, pending[k]), "C04.drain-in-order")
		if err != nil {
			break
		}
		vAssert(q.Advance() == nil, "C04.advance-ok")
	}
	_, err := vC04Next(q)
	vAssert(err == io.EOF, "C04.drained-queue-is-eof")
	vObserve("accepted", len(pending))
	q.Close()
	vReach("C04.burst.end")
}

// Appends that were acknowledged while >= 10 writers held limiter tokens are buffered in memory;
// a clean Close must not lose them. The tokens of the other writers are a symbolic pre-state
// (they entered Append but have not reached the queue lock yet).
func VerifHarness_C04_QueueBufferedClose() {
	dir := vC04Dir()
	defer os.RemoveAll(dir)
	q := vC04Open(dir, 1<<20, 0)
	others := vLen("writersInFlight", 0, 10)
	for i := 0; i < others; i++ {
		q.limiter <- struct{}{}
	}
	b := vBytes("block", vLen("blockLen", 1, 2))
	err := q.Append(b)
	vAssert(err == nil, "C04.append-ok")
	vAssert(q.Close() == nil, "C04.close-ok")
	q2 := vC04Open(dir, 1<<20, 0)
	got, err := vC04Next(q2)
	// known finding C04-F2: queue.Close does not flush the tail segment's buffer
	vAssertKF(err == nil && bytes.Equal(got, b), "C04.acked-append-survives-close", others >= 9, "C04-F2")
	q2.Close()
	vReach("C04.bufferedclose.end")
}
