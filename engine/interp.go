package main

// SSA interpreter over symbolic values; structure follows golang.org/x/tools/go/ssa/interp.

import (
	"fmt"
	"go/token"
	"go/types"

	"golang.org/x/tools/go/ssa"
)

type deferred struct {
	fn   Value
	args []Value
	pos  token.Pos
	tail *deferred
}

type frame struct {
	e                *Engine
	caller           *frame
	fn               *ssa.Function
	block, prevBlock *ssa.BasicBlock
	env              map[ssa.Value]Value
	locals           []Value
	defers           *deferred
	result           Value
	panicking        bool
	panicVal         *targetPanic
	pos              token.Pos
	phitemps         []Value
	curCall          *ssa.Call
}

func (fr *frame) get(key ssa.Value) Value {
	switch key := key.(type) {
	case nil:
		return nil
	case *ssa.Function:
		return key
	case *ssa.Builtin:
		return key
	case *ssa.Const:
		return fr.e.constValue(key)
	case *ssa.Global:
		return fr.e.globalAddr(key)
	}
	if r, ok := fr.env[key]; ok {
		return r
	}
	panic(fmt.Sprintf("get: no value for %T: %v in %s", key, key.Name(), fr.fn))
}

func (e *Engine) constValue(c *ssa.Const) Value {
	if c.Value == nil {
		return e.zero(c.Type())
	}
	t := c.Type().Underlying()
	if b, ok := t.(*types.Basic); ok {
		if b.Info()&types.IsString != 0 {
			return Str{S: constantString(c)}
		}
		w, _, isF, ok := basicInfo(b)
		if !ok {
			panic(e.unsupported("const of type " + b.String()))
		}
		if isF {
			return e.constFloat(w, c.Float64())
		}
		if w == 0 {
			return e.tt.Bool(constantBool(c))
		}
		if b.Info()&types.IsUnsigned != 0 {
			return e.tt.Const(w, c.Uint64())
		}
		return e.tt.Const(w, uint64(c.Int64()))
	}
	panic(e.unsupported(fmt.Sprintf("const of type %v", c.Type())))
}

func (e *Engine) globalAddr(g *ssa.Global) *Value {
	if a, ok := e.globals[g]; ok {
		return a
	}
	e.ensureInit(g.Pkg)
	if a, ok := e.globals[g]; ok {
		return a
	}
	panic(e.unsupported("global without storage: " + g.String()))
}

// ensureInit allocates a package's globals and runs its init function once per engine, with the
// journal suspended (package state is shared by all paths of this worker).
func (e *Engine) ensureInit(pkg *ssa.Package) {
	if e.initDone[pkg] {
		return
	}
	e.initDone[pkg] = true
	for _, m := range pkg.Members {
		if g, ok := m.(*ssa.Global); ok {
			cell := new(Value)
			*cell = e.zero(deref(g.Type()))
			e.globals[g] = cell
		}
	}
	initFn := pkg.Func("init")
	if initFn == nil || initFn.Blocks == nil {
		return
	}
	if e.cfg.SkipInit[pkg.Pkg.Path()] {
		return
	}
	savedJ, savedFrame, savedPath := e.journalOn, e.curFrame, e.path
	e.journalOn = false
	e.inInit++
	// init runs on a scratch path so that it cannot consume decisions
	e.path = newPathState()
	defer func() {
		e.inInit--
		e.journalOn, e.curFrame, e.path = savedJ, savedFrame, savedPath
	}()
	e.runInitTolerant(initFn)
}

// runInitTolerant executes an init function; instructions that cannot be executed poison their
// result instead of failing the run.
func (e *Engine) runInitTolerant(fn *ssa.Function) {
	fr := &frame{e: e, fn: fn, env: make(map[ssa.Value]Value)}
	fr.locals = make([]Value, len(fn.Locals))
	for i, l := range fn.Locals {
		fr.locals[i] = e.zero(deref(l.Type()))
		fr.env[l] = &fr.locals[i]
	}
	fr.block = fn.Blocks[0]
	saved := e.curFrame
	e.curFrame = fr
	defer func() { e.curFrame = saved }()
	for fr.block != nil {
		instrs := fr.executePhis()
		next := false
		for _, instr := range instrs {
			k := e.tolerantInstr(fr, instr)
			if k == kReturn {
				return
			}
			if k == kJump {
				next = true
				break
			}
		}
		if !next {
			return
		}
	}
}

func (e *Engine) tolerantInstr(fr *frame, instr ssa.Instruction) (k continuation) {
	defer func() {
		if r := recover(); r != nil {
			switch r.(type) {
			case unsupportedErr, targetPanic, boundErr, pathEnd:
			default:
				// engine bug inside init: treat as unsupported as well, but keep going
			}
			why := fmt.Sprint(r)
			if v, ok := instr.(ssa.Value); ok {
				fr.env[v] = Poison{why}
			}
			k = kNext
			if _, ok := instr.(*ssa.If); ok {
				// cannot decide control flow: stop this init
				k = kReturn
			}
			if _, ok := instr.(*ssa.Jump); ok {
				k = kReturn
			}
		}
	}()
	// calls to other packages' init are skipped (lazy, on first access)
	if c, ok := instr.(*ssa.Call); ok {
		if f, ok := c.Call.Value.(*ssa.Function); ok && f.Name() == "init" && f.Signature.Recv() == nil && f.Pkg != fr.fn.Pkg {
			fr.env[c] = Tuple(nil)
			return kNext
		}
	}
	// operands poisoned -> result poisoned
	for _, op := range instr.Operands(nil) {
		if *op == nil {
			continue
		}
		if v, ok := fr.env[*op]; ok {
			if p, isP := v.(Poison); isP {
				if val, ok := instr.(ssa.Value); ok {
					fr.env[val] = p
				}
				if _, isIf := instr.(*ssa.If); isIf {
					return kReturn
				}
				return kNext
			}
		}
	}
	return fr.visitInstr(instr)
}

type continuation int

const (
	kNext continuation = iota
	kReturn
	kJump
)

func (fr *frame) executePhis() []ssa.Instruction {
	firstNonPhi := -1
	for i, instr := range fr.block.Instrs {
		if _, ok := instr.(*ssa.Phi); !ok {
			firstNonPhi = i
			break
		}
	}
	nonPhis := fr.block.Instrs[firstNonPhi:]
	if firstNonPhi > 0 {
		phis := fr.block.Instrs[:firstNonPhi]
		predIndex := -1
		for i, p := range fr.block.Preds {
			if p == fr.prevBlock {
				predIndex = i
				break
			}
		}
		fr.phitemps = fr.phitemps[:0]
		for _, phi := range phis {
			fr.phitemps = append(fr.phitemps, fr.get(phi.(*ssa.Phi).Edges[predIndex]))
		}
		for i, phi := range phis {
			fr.env[phi.(*ssa.Phi)] = fr.phitemps[i]
		}
	}
	return nonPhis
}

func (e *Engine) isNilPanicCheck(v Value) {
	if p, ok := v.(Poison); ok {
		panic(e.unsupported("use of poisoned value: " + p.why))
	}
}

func (fr *frame) visitInstr(instr ssa.Instruction) continuation {
	e := fr.e
	if p := instr.Pos(); p.IsValid() {
		fr.pos = p
	}
	if e.path != nil {
		e.path.steps++
		if e.inInit == 0 && e.path.steps > e.cfg.Limits.MaxSteps {
			panic(boundErr{fmt.Sprintf("more than %d SSA steps on one path", e.cfg.Limits.MaxSteps)})
		}
	}
	switch instr := instr.(type) {
	case *ssa.DebugRef:

	case *ssa.UnOp:
		fr.env[instr] = e.unop(instr, fr.get(instr.X))

	case *ssa.BinOp:
		fr.env[instr] = e.binop(instr.Op, instr.X.Type(), fr.get(instr.X), fr.get(instr.Y))

	case *ssa.Call:
		fn, args := fr.prepareCall(&instr.Call)
		fr.curCall = instr
		fr.env[instr] = e.call(fr, fn, args, instr.Pos())
		e.curFrame = fr

	case *ssa.ChangeInterface:
		fr.env[instr] = fr.get(instr.X)

	case *ssa.ChangeType:
		fr.env[instr] = fr.get(instr.X)

	case *ssa.Convert:
		// unsafe.Pointer(&s[i]): remember the tail of the slice so that a later conversion to
		// *[N]T (simple8b's (*[240]uint64)(unsafe.Pointer(&dst[j]))) can view it as an array.
		if ub, ok := instr.Type().Underlying().(*types.Basic); ok && ub.Kind() == types.UnsafePointer {
			if ia, ok := instr.X.(*ssa.IndexAddr); ok {
				if sl, ok := fr.get(ia.X).([]Value); ok {
					if it, ok := fr.get(ia.Index).(*Term); ok && it.IsConst() && int(it.S()) < len(sl) {
						fr.env[instr] = UnsafeSlicePtr{tail: sl[int(it.S()):cap(sl)], elem: fr.get(instr.X).(*Value)}
						break
					}
				}
			}
		}
		if usp, ok := fr.get(instr.X).(UnsafeSlicePtr); ok {
			if pt, ok := instr.Type().Underlying().(*types.Pointer); ok {
				if at, ok := pt.Elem().Underlying().(*types.Array); ok {
					n := int(at.Len())
					if n > len(usp.tail) {
						n = len(usp.tail)
					}
					cell := new(Value)
					*cell = Array(usp.tail[:n:n])
					fr.env[instr] = cell
					break
				}
				fr.env[instr] = usp.elem
				break
			}
			fr.env[instr] = usp
			break
		}
		fr.env[instr] = e.conv(instr.Type(), instr.X.Type(), fr.get(instr.X))

	case *ssa.MultiConvert:
		fr.env[instr] = e.conv(instr.Type(), instr.X.Type(), fr.get(instr.X))

	case *ssa.SliceToArrayPointer:
		x := fr.get(instr.X).([]Value)
		n := int(deref(instr.Type()).Underlying().(*types.Array).Len())
		if len(x) < n {
			panic(e.targetPanicStr("runtime error: cannot convert slice to array pointer: length too short"))
		}
		if x == nil {
			fr.env[instr] = (*Value)(nil)
		} else {
			// array view sharing storage: Array is a Go slice header over the same backing store
			cell := new(Value)
			*cell = Array(x[:n:n])
			fr.env[instr] = cell
		}

	case *ssa.MakeInterface:
		v := fr.get(instr.X)
		fr.env[instr] = Iface{T: instr.X.Type(), V: v}

	case *ssa.Extract:
		fr.env[instr] = fr.get(instr.Tuple).(Tuple)[instr.Index]

	case *ssa.Slice:
		fr.env[instr] = e.sliceOp(instr, fr.get(instr.X), fr.get(instr.Low), fr.get(instr.High), fr.get(instr.Max))

	case *ssa.Return:
		switch len(instr.Results) {
		case 0:
		case 1:
			fr.result = fr.get(instr.Results[0])
		default:
			res := make(Tuple, len(instr.Results))
			for i, r := range instr.Results {
				res[i] = fr.get(r)
			}
			fr.result = res
		}
		fr.block = nil
		return kReturn

	case *ssa.RunDefers:
		fr.runDefers()

	case *ssa.Panic:
		v := fr.get(instr.X)
		panic(targetPanic{v: v, msg: e.panicMessage(v), pos: fr.fn.String() + " " + e.posString(instr.Pos())})

	case *ssa.Send:
		e.chanSend(fr.get(instr.Chan).(*Chan), fr.get(instr.X))

	case *ssa.Store:
		addr, ok := fr.get(instr.Addr).(*Value)
		if !ok {
			e.isNilPanicCheck(fr.get(instr.Addr))
			panic(e.unsupported(fmt.Sprintf("store through %T", fr.get(instr.Addr))))
		}
		e.store(addr, fr.get(instr.Val))

	case *ssa.If:
		c := fr.get(instr.Cond)
		ct, ok := c.(*Term)
		if !ok {
			e.isNilPanicCheck(c)
			panic(e.unsupported(fmt.Sprintf("if on %T", c)))
		}
		succ := 1
		if e.Decide(ct) {
			succ = 0
		}
		fr.prevBlock, fr.block = fr.block, fr.block.Succs[succ]
		return kJump

	case *ssa.Jump:
		fr.prevBlock, fr.block = fr.block, fr.block.Succs[0]
		return kJump

	case *ssa.Defer:
		fn, args := fr.prepareCall(&instr.Call)
		fr.defers = &deferred{fn: fn, args: args, pos: instr.Pos(), tail: fr.defers}

	case *ssa.Go:
		fn, args := fr.prepareCall(&instr.Call)
		e.path.goDepth++
		e.callGo(fr, fn, args, instr.Pos())
		e.path.goDepth--
		e.curFrame = fr

	case *ssa.MakeChan:
		n := int(e.Concretize(fr.get(instr.Size).(*Term), "chan size"))
		fr.env[instr] = &Chan{cap: n, ET: instr.Type().Underlying().(*types.Chan).Elem()}

	case *ssa.Alloc:
		var addr *Value
		if instr.Heap {
			addr = new(Value)
			fr.env[instr] = addr
		} else {
			addr = fr.env[instr].(*Value)
		}
		*addr = e.zero(deref(instr.Type()))

	case *ssa.MakeSlice:
		lt, ct := fr.get(instr.Len).(*Term), fr.get(instr.Cap).(*Term)
		if big := e.bigMake(lt, ct, instr); big != nil {
			fr.env[instr] = big
			break
		}
		n := e.concretizeSize(lt, "make len")
		c := n
		if ct != lt {
			if lt.IsConst() && !ct.IsConst() {
				// a symbolic capacity *hint* with a concrete length: the capacity is not
				// concretised (it would tie all inputs together); the slice gets cap == len.
				// Only cap() and append's reuse of spare capacity could observe the difference.
				c64 := e.tt.Resize(ct, 64, true)
				if e.Decide(e.tt.Slt(c64, e.tt.Const(64, uint64(n)))) {
					panic(e.targetPanicStr("runtime error: makeslice: cap out of range"))
				}
			} else {
				c = e.concretizeSize(ct, "make cap")
			}
		}
		if c < n {
			panic(e.targetPanicStr("runtime error: makeslice: cap out of range"))
		}
		if c > e.cfg.MaxAlloc {
			if e.cfg.ClampAlloc && n <= e.cfg.MaxAlloc {
				c = n
			} else {
				panic(boundErr{fmt.Sprintf("make of %d elements exceeds alloc bound %d%s", c, e.cfg.MaxAlloc, e.where())})
			}
		}
		sl := make([]Value, c)
		tElt := instr.Type().Underlying().(*types.Slice).Elem()
		z := e.zero(tElt)
		for i := range sl {
			sl[i] = copyVal(z)
		}
		fr.env[instr] = sl[:n]

	case *ssa.MakeMap:
		mt := instr.Type().Underlying().(*types.Map)
		fr.env[instr] = &Map{KT: mt.Key(), VT: mt.Elem()}

	case *ssa.Range:
		fr.env[instr] = e.rangeIter(fr.get(instr.X))

	case *ssa.Next:
		fr.env[instr] = e.iterNext(fr.get(instr.Iter), instr)

	case *ssa.FieldAddr:
		p, ok := fr.get(instr.X).(*Value)
		if !ok {
			e.isNilPanicCheck(fr.get(instr.X))
			panic(e.unsupported(fmt.Sprintf("FieldAddr on %T", fr.get(instr.X))))
		}
		if p == nil {
			panic(e.targetPanicStr("runtime error: invalid memory address or nil pointer dereference"))
		}
		s, ok := (*p).(Struct)
		if !ok {
			e.isNilPanicCheck(*p)
			panic(e.unsupported(fmt.Sprintf("FieldAddr: cell holds %T", *p)))
		}
		fr.env[instr] = &s[instr.Field]

	case *ssa.Field:
		x := fr.get(instr.X)
		s, ok := x.(Struct)
		if !ok {
			e.isNilPanicCheck(x)
			panic(e.unsupported(fmt.Sprintf("Field on %T", x)))
		}
		fr.env[instr] = copyVal(s[instr.Field])

	case *ssa.IndexAddr:
		x := fr.get(instr.X)
		idx := fr.get(instr.Index).(*Term)
		switch x := x.(type) {
		case []Value:
			if !idx.IsConst() && len(x) > 2 && onlyLoaded(instr) {
				fr.env[instr] = e.symElemPtr(x, idx, instr.Index.Type())
				break
			}
			i := e.indexCheck(idx, instr.Index.Type(), len(x))
			fr.env[instr] = &x[i]
		case *Value:
			if x == nil {
				panic(e.targetPanicStr("runtime error: invalid memory address or nil pointer dereference"))
			}
			a := (*x).(Array)
			if !idx.IsConst() && len(a) > 2 && onlyLoaded(instr) {
				fr.env[instr] = e.symElemPtr([]Value(a), idx, instr.Index.Type())
				break
			}
			i := e.indexCheck(idx, instr.Index.Type(), len(a))
			fr.env[instr] = &a[i]
		default:
			e.isNilPanicCheck(x)
			panic(e.unsupported(fmt.Sprintf("IndexAddr on %T", x)))
		}

	case *ssa.Index:
		x := fr.get(instr.X)
		idx := fr.get(instr.Index).(*Term)
		switch x := x.(type) {
		case Array:
			if !idx.IsConst() && len(x) > 2 {
				fr.env[instr] = e.symLoad(e.symElemPtr([]Value(x), idx, instr.Index.Type()).(SymElemPtr))
				break
			}
			i := e.indexCheck(idx, instr.Index.Type(), len(x))
			fr.env[instr] = copyVal(x[i])
		case Str:
			if !idx.IsConst() && x.Len() > 2 {
				bs := e.strBytes(x)
				cells := make([]Value, len(bs))
				for i, b := range bs {
					cells[i] = b
				}
				fr.env[instr] = e.symLoad(e.symElemPtr(cells, idx, instr.Index.Type()).(SymElemPtr))
				break
			}
			i := e.indexCheck(idx, instr.Index.Type(), x.Len())
			fr.env[instr] = e.strByte(x, i)
		default:
			e.isNilPanicCheck(x)
			panic(e.unsupported(fmt.Sprintf("Index on %T", x)))
		}

	case *ssa.Lookup:
		fr.env[instr] = e.lookup(instr, fr.get(instr.X), fr.get(instr.Index))

	case *ssa.MapUpdate:
		m, ok := fr.get(instr.Map).(*Map)
		if !ok {
			e.isNilPanicCheck(fr.get(instr.Map))
			panic(e.unsupported("MapUpdate on non-map"))
		}
		if m == nil {
			panic(e.targetPanicStr("assignment to entry in nil map"))
		}
		e.mapUpdate(m, fr.get(instr.Key), fr.get(instr.Value))

	case *ssa.TypeAssert:
		fr.env[instr] = e.typeAssert(instr, fr.get(instr.X))

	case *ssa.MakeClosure:
		var bindings []Value
		for _, b := range instr.Bindings {
			bindings = append(bindings, fr.get(b))
		}
		fr.env[instr] = &Closure{Fn: instr.Fn.(*ssa.Function), Env: bindings}

	case *ssa.Select:
		fr.env[instr] = e.selectOp(fr, instr)

	default:
		panic(e.unsupported(fmt.Sprintf("instruction %T", instr)))
	}
	return kNext
}

func (fr *frame) prepareCall(call *ssa.CallCommon) (fn Value, args []Value) {
	e := fr.e
	v := fr.get(call.Value)
	if call.Method == nil {
		fn = v
	} else {
		recv, ok := v.(Iface)
		if !ok {
			e.isNilPanicCheck(v)
			panic(e.unsupported(fmt.Sprintf("invoke on %T", v)))
		}
		if recv.T == nil {
			panic(e.targetPanicStr("runtime error: invalid memory address or nil pointer dereference (method call on nil interface)"))
		}
		// per-engine cache: prog.LookupMethod takes a program-wide lock on every call
		mk := methodKey{recv.T, call.Method}
		f, cached := e.methodCache[mk]
		if !cached {
			f = e.prog.LookupMethod(recv.T, call.Method.Pkg(), call.Method.Name())
			if e.methodCache == nil {
				e.methodCache = map[methodKey]*ssa.Function{}
			}
			e.methodCache[mk] = f
		}
		if f == nil {
			panic(e.unsupported(fmt.Sprintf("no method %s on %v", call.Method.Name(), recv.T)))
		}
		fn = f
		args = append(args, recv.V)
	}
	for _, a := range call.Args {
		args = append(args, fr.get(a))
	}
	return
}

func (e *Engine) call(caller *frame, fn Value, args []Value, pos token.Pos) Value {
	switch fn := fn.(type) {
	case *ssa.Function:
		if fn == nil {
			panic(e.targetPanicStr("call of nil function"))
		}
		return e.callFunction(caller, fn, args, nil, pos)
	case *Closure:
		if fn == nil {
			panic(e.targetPanicStr("runtime error: invalid memory address or nil pointer dereference (call of nil func)"))
		}
		return e.callFunction(caller, fn.Fn, args, fn.Env, pos)
	case *ssa.Builtin:
		return e.callBuiltin(caller, fn, args)
	case NoopFunc:
		res := fn.sig.Results()
		switch res.Len() {
		case 0:
			return nil
		case 1:
			return e.zero(res.At(0).Type())
		}
		return e.zero(res)
	case Poison:
		panic(e.unsupported("call of poisoned function value: " + fn.why))
	}
	panic(e.unsupported(fmt.Sprintf("call of %T", fn)))
}

// callGo runs a goroutine body to completion at the spawn point.
func (e *Engine) callGo(caller *frame, fn Value, args []Value, pos token.Pos) {
	e.call(caller, fn, args, pos)
}

func fnKey(fn *ssa.Function) string {
	if o := fn.Origin(); o != nil {
		return o.String()
	}
	return fn.String()
}

func (e *Engine) callFunction(caller *frame, fn *ssa.Function, args []Value, env []Value, pos token.Pos) Value {
	name := fnKey(fn)
	if fn.Parent() == nil {
		if rep, ok := e.cfg.replFn[name]; ok && (caller == nil || !e.cfg.noReplInside[caller.fn]) {
			fn = rep
			name = fn.String()
		} else if in, ok := intrinsics[name]; ok {
			saved := e.curFrame
			r := in(e, caller, fn, args)
			e.curFrame = saved
			return r
		} else if h := e.dynamicIntrinsic(fn, name); h != nil {
			return h(e, caller, fn, args)
		}
	}
	if fn.Blocks == nil {
		panic(e.unsupported("call to body-less function " + name))
	}
	if fn.TypeParams().Len() > 0 && len(fn.TypeArgs()) == 0 {
		panic(e.unsupported("uninstantiated generic " + name))
	}
	if e.path != nil {
		e.path.depth++
		if e.path.depth > e.cfg.Limits.MaxDepth {
			panic(boundErr{fmt.Sprintf("call depth > %d at %s", e.cfg.Limits.MaxDepth, name)})
		}
		defer func() { e.path.depth-- }()
	}
	if e.res != nil && e.inInit == 0 && fn.Pkg != nil && e.cfg.isTargetPkg(fn.Pkg.Pkg.Path()) {
		e.res.Funcs[name] = true
	}
	fr := &frame{e: e, caller: caller, fn: fn, pos: pos}
	fr.env = make(map[ssa.Value]Value, 16)
	fr.block = fn.Blocks[0]
	fr.locals = make([]Value, len(fn.Locals))
	for i, l := range fn.Locals {
		fr.locals[i] = e.zero(deref(l.Type()))
		fr.env[l] = &fr.locals[i]
	}
	for i, p := range fn.Params {
		fr.env[p] = args[i]
	}
	for i, fv := range fn.FreeVars {
		fr.env[fv] = env[i]
	}
	saved := e.curFrame
	e.curFrame = fr
	for fr.block != nil {
		fr.run()
	}
	e.curFrame = saved
	return fr.result
}

// run executes until return, or until a target panic has been handled (recovered → resume at the
// Recover block; not recovered → re-panic to the caller).
func (fr *frame) run() {
	defer func() {
		if fr.block == nil {
			return // normal return
		}
		r := recover()
		tp, ok := r.(targetPanic)
		if !ok {
			panic(r) // engine signal or engine bug: never visible to target defers
		}
		fr.panicking = true
		fr.panicVal = &tp
		fr.e.curFrame = fr
		fr.runDefers() // re-panics if not recovered
		// recovered
		fr.block = fr.fn.Recover
		if fr.block == nil {
			// no named results: return zero values
			fr.result = fr.e.zero(fr.fn.Signature.Results())
			if fr.fn.Signature.Results().Len() == 0 {
				fr.result = nil
			}
		}
	}()
	for {
		for _, instr := range fr.executePhis() {
			switch fr.visitInstr(instr) {
			case kReturn:
				return
			case kJump:
			}
		}
	}
}

func (fr *frame) runDefers() {
	for d := fr.defers; d != nil; d = fr.defers {
		fr.defers = d.tail
		fr.runDefer(d)
	}
	if fr.panicking {
		panic(*fr.panicVal)
	}
}

func (fr *frame) runDefer(d *deferred) {
	ok := false
	defer func() {
		if !ok {
			r := recover()
			if tp, isTP := r.(targetPanic); isTP {
				fr.panicking = true
				fr.panicVal = &tp
				return
			}
			panic(r)
		}
	}()
	fr.e.call(fr, d.fn, d.args, d.pos)
	fr.e.curFrame = fr
	ok = true
}

func (e *Engine) doRecover(caller *frame) Value {
	// recover() must be called directly by a deferred function of a panicking frame
	if caller != nil && caller.caller != nil && caller.caller.panicking {
		caller.caller.panicking = false
		p := caller.caller.panicVal
		caller.caller.panicVal = nil
		switch v := p.v.(type) {
		case Iface:
			return v
		case Str:
			// runtime error: modelled as an error-like string
			return Iface{T: e.runtimeErrorType(), V: v}
		default:
			return Iface{T: e.runtimeErrorType(), V: Str{S: p.msg}}
		}
	}
	return Iface{}
}

func (e *Engine) runtimeErrorType() types.Type { return types.Typ[types.String] }

func (e *Engine) panicMessage(v Value) string {
	switch v := v.(type) {
	case Iface:
		if s, ok := v.V.(Str); ok && s.Concrete() {
			return "panic: " + s.S
		}
		if v.T != nil {
			// error value: try message field of errors.errorString
			if p, ok := v.V.(*Value); ok && p != nil {
				if st, ok := (*p).(Struct); ok && len(st) >= 1 {
					if s, ok := st[0].(Str); ok && s.Concrete() {
						return "panic: " + s.S
					}
				}
			}
			return "panic: value of type " + v.T.String()
		}
		return "panic: nil"
	case Str:
		return "panic: " + v.S
	}
	return fmt.Sprintf("panic: %T", v)
}

func constantString(c *ssa.Const) string {
	return constantStringVal(c)
}
