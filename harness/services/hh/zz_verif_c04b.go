//go:build verif_harness

package hh

// C04-K2 / C03-K2: two kernels around the queue.
//
// ReopenSegmentOrder: a queue directory left behind by an earlier run (segment files with
// arbitrary ids, e.g. 9 and 10) is drained in the order the blocks were accepted (numeric id
// order), whatever order the directory listing has.
//
// ServiceQueueIdentity: the handoff service answers Empty(shard, owner) from the very queue that
// WriteShard(shard, owner, ...) fills - the coordinator relies on it to keep writes behind a
// non-empty queue ordered (and to send writes to a healthy owner directly).

import (
	"bytes"
	"io"
	"os"

	"github.com/influxdata/influxdb/models"
)

func init() {
	vRegister("VerifHarness_C04_ReopenSegmentOrder", VerifHarness_C04_ReopenSegmentOrder)
	vRegister("VerifHarness_C03_ServiceQueueIdentity", VerifHarness_C03_ServiceQueueIdentity)
}

var vC04SegmentIDs = []uint64{1, 2, 9, 10, 11, 99, 100, 1000}

func VerifHarness_C04_ReopenSegmentOrder() {
	dir := vC04Dir()
	defer os.RemoveAll(dir)
	// 2..3 segment files with ascending ids chosen from ids of different digit counts, each
	// holding 1..2 blocks (what a run with that many roll-overs leaves behind)
	n := vLen("segments", 2, 3)
	var pending [][]byte
	last := -1
	tag := byte(0)
	for i := 0; i < n; i++ {
		k := vChoice("segmentID", len(vC04SegmentIDs))
		vAssume(k > last)
		last = k
		seg, err := newSegment(vC04SegmentIDs[k], dir, 1<<20)
		vAssume(err == nil)
		nb := vLen("blocksInSegment", 1, 2)
		for j := 0; j < nb; j++ {
			tag++
			b := []byte{tag, vByte("payload")}
			vAssume(seg.append(b, false) == nil)
			pending = append(pending, b)
		}
		vAssume(seg.close() == nil)
	}
	q := vC04Open(dir, 1<<20, 0)
	vAssert(!q.Empty(), "C04.empty-iff-nothing-pending")
	for k := 0; k < len(pending); k++ {
		b, err := vC04Next(q)
		vAssert(err == nil && bytes.Equal(b, pending[k]), "C04.drain-in-order-after-reopen")
		if err != nil {
			break
		}
		vAssert(q.Advance() == nil, "C04.advance-ok")
	}
	_, err := vC04Next(q)
	vAssert(err == io.EOF, "C04.drained-queue-is-eof")
	// a block appended now is delivered after everything that was pending
	vAssert(q.Append([]byte{0xEE}) == nil, "C04.append-after-reopen-ok")
	b, err := vC04Next(q)
	vAssert(err == nil && bytes.Equal(b, []byte{0xEE}), "C04.append-after-reopen-is-delivered-last")
	vObserve("pending", len(pending))
	q.Close()
	vReach("C04.reopen-order.end")
}

func VerifHarness_C03_ServiceQueueIdentity() {
	dir := vC04Dir()
	defer os.RemoveAll(dir)
	cfg := NewConfig()
	cfg.Dir = dir
	s := NewService(cfg, nil)
	// processors for owners {1,2} x shards {1,2} exist (as after earlier handoffs); they are opened
	// without their background sender, which plays no part in Empty/WriteShard
	var procs []*NodeProcessor
	for node := uint64(1); node <= 2; node++ {
		for shard := uint64(1); shard <= 2; shard++ {
			p := NewNodeProcessor(cfg, node, shard, s.pathforNodeShard(node, shard), nil, nil)
			vAssume(os.MkdirAll(p.dir, 0700) == nil)
			q, err := newQueue(p.dir, p.MaxSize, p.MaxWritesPending)
			vAssume(err == nil)
			vAssume(q.Open() == nil)
			p.queue = q
			p.done = make(chan struct{})
			s.setProcessor(node, shard, p)
			procs = append(procs, p)
		}
	}
	pts, err := models.ParsePointsString("cpu,host=a v=1i 7")
	vAssume(err == nil)

	nW := vLen("handoffs", 0, 2)
	type key struct{ shard, owner uint64 }
	var written []key
	for i := 0; i < nW; i++ {
		k := key{uint64(vLen("shardID", 1, 2)), uint64(vLen("ownerID", 1, 2))}
		vAssert(s.WriteShard(k.shard, k.owner, pts) == nil, "C03.handoff-accepts-the-write")
		written = append(written, k)
	}
	for shard := uint64(1); shard <= 2; shard++ {
		for owner := uint64(1); owner <= 2; owner++ {
			pendingHere := false
			for _, k := range written {
				if k.shard == shard && k.owner == owner {
					pendingHere = true
				}
			}
			vAssert(s.Empty(shard, owner) == !pendingHere, "C03.handoff-empty-answers-for-the-queue-that-write-fills")
		}
	}
	vObserve("handoffs", nW)
	for _, p := range procs {
		p.queue.Close()
	}
	vReach("C03.service-identity.end")
}
