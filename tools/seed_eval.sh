#!/bin/bash
# usage: [SEED_NAME=C03b] seed_eval.sh <prop> <worktree> <pkgdir> <demo-regexp> [check args]
# verifies a seeded change (build, package tests, demo fails with / passes without), stores it under
# /verif/seeded/<prop>/ and runs the property's check against it in /repo (applied, then reverted).
set -u
prop=$1; wt=$2; pkg=$3; demo=$4; shift 4
export GOFLAGS=-mod=mod GOPROXY=off GOSUMDB=off GOTOOLCHAIN=local
out=/verif/seeded/${SEED_NAME:-$prop}; mkdir -p $out
git -C $wt diff > $out/patch.diff
[ -s $out/patch.diff ] || { echo "empty patch"; exit 2; }
cp $wt/$pkg/zz_demo_test.go $out/zz_demo_test.go 2>/dev/null
cp $wt/SEEDED.md $out/SEEDED.md 2>/dev/null
echo "== files: $(git -C $wt diff --stat | tail -1)"
(cd $wt && go build ./... ) && echo "build: ok" || echo "build: FAIL"
(cd $wt && go test -count=1 -run "$demo" ./$pkg/ 2>&1 | tail -3 | cut -c1-200); echo "^ demo WITH change (expect FAIL)"
(cd $wt && git apply -R $out/patch.diff && go test -count=1 -run "$demo" ./$pkg/ 2>&1 | tail -2 | cut -c1-200; git apply $out/patch.diff); echo "^ demo WITHOUT change (expect ok)"
for d in $(git -C $wt diff --name-only | xargs -n1 dirname | sort -u); do (cd $wt && mv $pkg/zz_demo_test.go /tmp/zz_demo_hold.go 2>/dev/null; go test -count=1 ./$d/ 2>&1 | tail -1 | cut -c1-160; mv /tmp/zz_demo_hold.go $pkg/zz_demo_test.go 2>/dev/null); done; echo "^ existing tests of touched packages WITH change (expect ok)"
cd /repo && git diff --quiet || { echo "repo dirty"; exit 2; }
git apply $out/patch.diff || { echo "patch does not apply to /repo"; exit 2; }
cd /verif && ./check $prop "$@" 2>&1 | grep -E "^(VIOLATION|KNOWN|BROKEN|PASS)" | cut -c1-260 | tee $out/check_result.txt
git -C /repo checkout -- .
