//go:build verif_harness

package tsdb

// C02-K3: field-type validation. A point carrying a field whose type conflicts with the type the
// field already has is rejected as a partial write; a field never holds two types.

import (
	"github.com/influxdata/influxdb/models"
	"github.com/influxdata/influxql"
)

func init() {
	vRegister("VerifHarness_C02_FieldTypeValidation", VerifHarness_C02_FieldTypeValidation)
}

var vC02Texts = []string{"1i", "1.5", "t", "\"s\""}
var vC02Types = []influxql.DataType{influxql.Integer, influxql.Float, influxql.Boolean, influxql.String}
var vC02Names = []string{"a", "b", "time"}

func VerifHarness_C02_FieldTypeValidation() {
	mf := NewMeasurementFields()
	existing := map[string]influxql.DataType{}
	for _, name := range []string{"a", "b"} {
		k := vChoice("existingType:"+name, len(vC02Types)+1)
		if k < len(vC02Types) {
			vAssume(mf.CreateFieldIfNotExists([]byte(name), vC02Types[k]) == nil)
			existing[name] = vC02Types[k]
		}
	}
	// a point with 1..2 fields, each with a name from {a, b, time} and a value of any type
	nf := vLen("fields", 1, 2)
	line := "m "
	type fld struct {
		name string
		typ  influxql.DataType
	}
	var fs []fld
	for i := 0; i < nf; i++ {
		name := vC02Names[vChoice("fieldName", len(vC02Names))]
		for _, f := range fs {
			vAssume(f.name != name)
		}
		t := vChoice("fieldType", len(vC02Texts))
		if i > 0 {
			line += ","
		}
		line += name + "=" + vC02Texts[t]
		fs = append(fs, fld{name, vC02Types[t]})
	}
	pts, err := models.ParsePointsString(line + " 7")
	vAssume(err == nil && len(pts) == 1)
	verr := defaultFieldValidator{}.Validate(mf, pts[0])
	conflict := false
	for _, f := range fs {
		if f.name == "time" {
			continue
		}
		if et, ok := existing[f.name]; ok && et != f.typ {
			conflict = true
		}
	}
	_, isPartial := verr.(PartialWriteError)
	vAssert((verr != nil) == conflict, "C02.point-rejected-iff-field-type-conflicts")
	vAssert(verr == nil || isPartial, "C02.conflict-is-reported-as-partial-write")
	if isPartial {
		vAssert(verr.(PartialWriteError).Dropped == 1, "C02.conflict-is-reported-as-partial-write")
	}
	// creating the point's fields afterwards never changes an existing type
	for _, f := range fs {
		if f.name == "time" {
			continue
		}
		cerr := mf.CreateFieldIfNotExists([]byte(f.name), f.typ)
		et, had := existing[f.name]
		vAssert((cerr != nil) == (had && et != f.typ), "C02.field-creation-conflict-detected")
		got := mf.FieldBytes([]byte(f.name))
		vAssert(got != nil, "C02.field-exists-after-creation")
		if got != nil {
			if had {
				vAssert(got.Type == et, "C02.field-keeps-its-first-type")
			} else {
				vAssert(got.Type == f.typ, "C02.field-keeps-its-first-type")
				existing[f.name] = f.typ
			}
		}
	}
	vObserve("conflict", conflict)
	vReach("C02.fieldtypes.end")
}
