//go:build verif_harness

package coordinator

// C15 harnesses: inter-node frame reader/writer (ReadType/ReadLV/ReadTLV/WriteTLV/DecodeLV).

import (
	"bytes"
	"errors"
	"io"
)

func init() {
	vRegister("VerifHarness_C15_ReadLV", VerifHarness_C15_ReadLV)
	vRegister("VerifHarness_C15_TLVRoundTrip", VerifHarness_C15_TLVRoundTrip)
	vRegister("VerifHarness_C15_DecodeLV", VerifHarness_C15_DecodeLV)
}

// vStream is an io.Reader over an arbitrary byte string that may deliver short reads and records
// the largest buffer it was asked to fill (= the allocation ReadLV made for the frame).
type vStream struct {
	data    []byte
	off     int
	maxReq  int64
	shortAt int // deliver at most 1 byte on the shortAt-th call (-1: never)
	calls   int
}

func (s *vStream) Read(p []byte) (int, error) {
	if int64(len(p)) > s.maxReq {
		s.maxReq = int64(len(p))
	}
	if len(p) == 0 {
		return 0, nil
	}
	if s.off >= len(s.data) {
		return 0, io.EOF
	}
	n := len(s.data) - s.off
	if n > len(p) {
		n = len(p)
	}
	if s.calls == s.shortAt && n > 1 {
		n = 1
	}
	s.calls++
	copy(p[:n], s.data[s.off:s.off+n])
	s.off += n
	return n, nil
}

// Any byte stream (8-byte length prefix of any value + up to 4 payload bytes, cut anywhere, with
// an optional short read) fed to ReadLV: no panic; the buffer allocated for the frame never
// exceeds MaxMessageSize; a negative or oversized length is answered with an error; on success
// the payload is exactly the bytes that followed the prefix.
func VerifHarness_C15_ReadLV() {
	n := vLen("streamLen", 0, 12)
	s := &vStream{data: vBytes("stream", n), shortAt: vLen("shortAt", 0, 2) - 1}
	var sz int64
	if n >= 8 {
		for i := 0; i < 8; i++ {
			sz = sz<<8 | int64(s.data[i])
		}
	}
	panicked := true
	var buf []byte
	var err error
	func() {
		defer func() {
			if r := recover(); r != nil {
				_ = r
			}
		}()
		buf, err = ReadLV(s)
		panicked = false
	}()
	vAssertKF(!panicked, "C15.readlv-no-panic", n >= 8 && sz < 0, "C15-F1")
	if panicked {
		vReach("C15.readlv.panic")
		return
	}
	vAssert(s.maxReq <= MaxMessageSize, "C15.readlv-alloc-bounded")
	if n >= 8 && (sz < 0 || sz >= MaxMessageSize) {
		vAssert(err != nil, "C15.readlv-bad-length-is-error")
	}
	if err == nil {
		vAssert(n >= 8 && int64(len(buf)) == sz && sz <= int64(n-8), "C15.readlv-success-length")
		ok := len(buf) <= n-8
		for i := 0; ok && i < len(buf); i++ {
			ok = buf[i] == s.data[8+i]
		}
		vAssert(ok, "C15.readlv-success-payload")
		vReach("C15.readlv.ok")
	} else {
		// an error must only be reported when the frame is malformed or truncated
		vAssert(n < 8 || sz < 0 || sz >= MaxMessageSize || sz > int64(n-8), "C15.readlv-error-only-if-bad")
		vReach("C15.readlv.err")
	}
}

// WriteTLV then ReadTLV is the identity on (type, payload) for payloads up to 6 bytes.
func VerifHarness_C15_TLVRoundTrip() {
	typ := vByte("typ")
	payload := vBytes("payload", vLen("payloadLen", 0, 6))
	var w bytes.Buffer
	err := WriteTLV(&w, typ, payload)
	vAssert(err == nil, "C15.tlv-write-ok")
	s := &vStream{data: w.Bytes(), shortAt: vLen("shortAt", 0, 3) - 1}
	vAssert(len(s.data) == 9+len(payload), "C15.tlv-frame-length")
	t2, b2, err := ReadTLV(s)
	vAssert(err == nil, "C15.tlv-read-ok")
	vAssert(t2 == typ, "C15.tlv-type")
	vAssert(bytes.Equal(b2, payload), "C15.tlv-payload")
	vObserve("typ", t2)
	vObserve("payload", b2)
	vReach("C15.tlv.end")
}

type vUnmarshalRec struct {
	got  []byte
	fail bool
}

func (u *vUnmarshalRec) UnmarshalBinary(b []byte) error {
	u.got = append([]byte(nil), b...)
	if u.fail {
		return errors.New("bad payload")
	}
	return nil
}

// DecodeLV hands exactly the framed payload to the unmarshaler and propagates its error.
func VerifHarness_C15_DecodeLV() {
	payload := vBytes("payload", vLen("payloadLen", 0, 4))
	var w bytes.Buffer
	vAssume(WriteLV(&w, payload) == nil)
	extra := vBytes("trailing", vLen("trailingLen", 0, 2))
	w.Write(extra)
	u := &vUnmarshalRec{fail: vBool("unmarshalFails")}
	s := &vStream{data: w.Bytes(), shortAt: -1}
	err := DecodeLV(s, u)
	vAssert((err != nil) == u.fail, "C15.decodelv-error-propagates")
	vAssert(bytes.Equal(u.got, payload), "C15.decodelv-payload")
	vAssert(s.off == 8+len(payload), "C15.decodelv-consumes-exactly-frame")
	vReach("C15.decodelv.end")
}
