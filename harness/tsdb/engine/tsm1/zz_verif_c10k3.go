//go:build verif_harness

package tsm1

// C10-K3: series visibility after a range delete. The real Engine.deleteSeriesRange runs over
// real TSM files (real writer/reader, tombstones), the real cache and a recording index / series
// file: a series is dropped from the shard's index exactly when the delete removed its last
// point - never while a point of it remains in any file (inside or outside the deleted time
// range) or in the cache.
//
// Engine-side models: block codec table and tombstone list as in C09-K1b, tsdb.SeriesIDSet as
// the finite-set abstraction, the series file as a key<->id table (the real series file natively).

import (
	"os"
	"path/filepath"

	"github.com/influxdata/influxdb/models"
	"github.com/influxdata/influxdb/tsdb"
	"go.uber.org/zap"
)

func init() {
	vRegister("VerifHarness_C10_SeriesVisibility", VerifHarness_C10_SeriesVisibility)
}

type vC10Index struct {
	tsdb.Index
	droppedKeys [][]byte
}

func (x *vC10Index) DropSeriesList(ids []uint64, keys [][]byte, cascade bool) error {
	for _, k := range keys {
		x.droppedKeys = append(x.droppedKeys, append([]byte(nil), k...))
	}
	return nil
}
func (x *vC10Index) DropMeasurementIfSeriesNotExist(name []byte) (bool, error) { return false, nil }

type vC10NoOtherShards struct{}

func (vC10NoOtherShards) ForEach(f func(ids *tsdb.SeriesIDSet)) error { return nil }

var vC10SeriesKeys = []string{"cpu,host=A", "cpu,host=B"}

// series file holding the two series (native: the real one)
func vC10SeriesFile(dir string) *tsdb.SeriesFile {
	sf := tsdb.NewSeriesFile(filepath.Join(dir, "_series"))
	sf.Logger = zap.NewNop()
	if err := sf.Open(); err != nil {
		panic(err)
	}
	var names [][]byte
	var tags []models.Tags
	for _, k := range vC10SeriesKeys {
		n, t := models.ParseKeyBytes([]byte(k))
		names = append(names, n)
		tags = append(tags, t)
	}
	if _, err := sf.CreateSeriesListIfNotExists(names, tags); err != nil {
		panic(err)
	}
	return sf
}
func vC10SeriesFileClose(sf *tsdb.SeriesFile) { sf.Close() }

func vC10SeriesFileModel(dir string) *tsdb.SeriesFile { return &tsdb.SeriesFile{} }
func vC10SeriesFileCloseModel(sf *tsdb.SeriesFile)    {}
func vC10SFSeriesID(sf *tsdb.SeriesFile, name []byte, tags models.Tags, buf []byte) uint64 {
	key := string(models.MakeKey(name, tags))
	for i, k := range vC10SeriesKeys {
		if k == key {
			return uint64(i + 1)
		}
	}
	return 0
}
func vC10SFSeries(sf *tsdb.SeriesFile, id uint64) ([]byte, models.Tags) {
	if id < 1 || int(id) > len(vC10SeriesKeys) {
		return nil, nil
	}
	return models.ParseKeyBytes([]byte(vC10SeriesKeys[id-1]))
}
func vC10SFDeleteSeriesID(sf *tsdb.SeriesFile, id uint64) error { return nil }

type vC10Pt struct {
	series int
	t      int64
}

func VerifHarness_C10_SeriesVisibility() {
	vC09Tab = nil
	vC10TombsByPath = map[string][]Tombstone{}
	vC10Applied = map[*Tombstoner]int{}
	dir, err := os.MkdirTemp("", "verif-c10k3-")
	if err != nil {
		panic(err)
	}
	defer os.RemoveAll(dir)

	fieldKey := func(s int) []byte { return SeriesFieldKeyBytes(vC10SeriesKeys[s], "v") }
	var pts []vC10Pt
	// 1..2 TSM files; each holds one point for series A and/or B at an arbitrary time
	nFiles := 2
	if vThorough() {
		nFiles = vLen("files", 1, 2)
	}
	var files []TSMFile
	for f := 0; f < nFiles; f++ {
		name := filepath.Join(dir, []string{"000000001-000000001.tsm", "000000002-000000001.tsm"}[f])
		fd, err := os.OpenFile(name, os.O_CREATE|os.O_RDWR, 0666)
		vAssume(err == nil)
		w, err := NewTSMWriter(fd)
		vAssume(err == nil)
		// first file: A, or A and B (same time); second file: A or B
		content := 0
		if true {
			content = vChoice("fileHolds", 2)
		}
		t := vInt64("t")
		vAssume(t >= models.MinNanoTime) // the write path rejects timestamps outside [MinNanoTime, MaxNanoTime]
		vAssume(t <= models.MaxNanoTime)
		for s := 0; s < 2; s++ {
			if f == 0 && s == 1 && content == 0 {
				continue
			}
			if f == 1 && s != content {
				continue
			}
			arr := &tsdb.IntegerArray{Timestamps: []int64{t}, Values: []int64{int64(10*f + s)}}
			enc, err := EncodeIntegerArrayBlock(arr, nil)
			vAssume(err == nil)
			vAssume(w.WriteBlock(fieldKey(s), t, t, enc) == nil)
			pts = append(pts, vC10Pt{s, t})
		}
		vAssume(w.WriteIndex() == nil)
		vAssume(w.Close() == nil)
		rf, err := os.Open(name)
		vAssume(err == nil)
		r, err := NewTSMReader(rf)
		vAssume(err == nil)
		files = append(files, r)
	}
	sf := vC10SeriesFile(dir)
	defer vC10SeriesFileClose(sf)
	idx := &vC10Index{}
	e := &Engine{path: dir, logger: zap.NewNop(), traceLogger: zap.NewNop(), index: idx, sfile: sf, seriesIDSets: vC10NoOtherShards{}}
	e.Cache = NewCache(1 << 30)
	e.FileStore = NewFileStore(dir)
	e.FileStore.files = files
	// optionally a point of series A still in the cache
	if vBool("cachePoint") {
		t := vInt64("cacheT")
		vAssume(t >= models.MinNanoTime)
		vAssume(t <= models.MaxNanoTime)
		vAssume(e.Cache.WriteMulti(map[string][]Value{string(fieldKey(0)): {NewIntegerValue(t, 99)}}) == nil)
		pts = append(pts, vC10Pt{0, t})
	}

	// the delete: series A, or A and B, over an arbitrary inclusive range
	targets := [][]byte{[]byte(vC10SeriesKeys[0])}
	both := vThorough() && vBool("deleteBothSeries")
	if both {
		targets = append(targets, []byte(vC10SeriesKeys[1]))
	}
	lo, hi := vInt64("deleteMin"), vInt64("deleteMax")
	vAssume(lo <= hi)
	derr := e.deleteSeriesRange(targets, lo, hi)
	vAssert(derr == nil, "C10.delete-ok")

	for s := 0; s < 2; s++ {
		targeted := s == 0 || both
		remaining := false
		had := false
		for _, p := range pts {
			if p.series == s {
				had = true
				remaining = vOr(remaining, !(targeted && vAnd(lo <= p.t, p.t <= hi)))
			}
		}
		dropped := false
		for _, k := range idx.droppedKeys {
			if string(k) == vC10SeriesKeys[s] {
				dropped = true
			}
		}
		if dropped {
			vAssert(!remaining, "C10.series-with-remaining-points-stays-listed")
			vAssert(targeted, "C10.only-targeted-series-are-dropped")
		} else if targeted && had {
			vAssert(remaining, "C10.series-without-points-is-no-longer-listed")
		}
	}
	vObserve("dropped", len(idx.droppedKeys))
	for _, f := range files {
		f.Close()
	}
	vReach("C10.visibility.end")
}
