//go:build verif_harness

package coordinator

// C15 harnesses: inter-node frame reader/writer (ReadType/ReadLV/ReadTLV/WriteTLV/DecodeLV).

import (
	"bytes"
	"encoding"
	"errors"
	"io"
	"time"

	"github.com/influxdata/influxdb/models"
	"github.com/influxdata/influxdb/tsdb"
)

func init() {
	vRegister("VerifHarness_C15_ReadLV", VerifHarness_C15_ReadLV)
	vRegister("VerifHarness_C15_TLVRoundTrip", VerifHarness_C15_TLVRoundTrip)
	vRegister("VerifHarness_C15_DecodeLV", VerifHarness_C15_DecodeLV)
	vRegister("VerifHarness_C15_WriteShardArbitraryPoints", VerifHarness_C15_WriteShardArbitraryPoints)
	vRegister("VerifHarness_C15_CreateIteratorMalformed", VerifHarness_C15_CreateIteratorMalformed)
}

// vStream is an io.Reader over an arbitrary byte string that may deliver short reads and records
// the largest buffer it was asked to fill (= the allocation ReadLV made for the frame).
type vStream struct {
	data    []byte
	off     int
	maxReq  int64
	shortAt int // deliver at most 1 byte on the shortAt-th call (-1: never)
	calls   int
}

func (s *vStream) Read(p []byte) (int, error) {
	if int64(len(p)) > s.maxReq {
		s.maxReq = int64(len(p))
	}
	if len(p) == 0 {
		return 0, nil
	}
	if s.off >= len(s.data) {
		return 0, io.EOF
	}
	n := len(s.data) - s.off
	if n > len(p) {
		n = len(p)
	}
	if s.calls == s.shortAt && n > 1 {
		n = 1
	}
	s.calls++
	copy(p[:n], s.data[s.off:s.off+n])
	s.off += n
	return n, nil
}

// Any byte stream (8-byte length prefix of any value + up to 4 payload bytes, cut anywhere, with
// an optional short read) fed to ReadLV: no panic; the buffer allocated for the frame never
// exceeds MaxMessageSize; a negative or oversized length is answered with an error; on success
// the payload is exactly the bytes that followed the prefix.
func VerifHarness_C15_ReadLV() {
	n := vLen("streamLen", 0, 12)
	s := &vStream{data: vBytes("stream", n), shortAt: vLen("shortAt", 0, 2) - 1}
	var sz int64
	if n >= 8 {
		for i := 0; i < 8; i++ {
			sz = sz<<8 | int64(s.data[i])
		}
	}
	panicked := true
	var buf []byte
	var err error
	func() {
		defer func() {
			if r := recover(); r != nil {
				_ = r
			}
		}()
		buf, err = ReadLV(s)
		panicked = false
	}()
	vAssertKF(!panicked, "C15.readlv-no-panic", n >= 8 && sz < 0, "C15-F1")
	if panicked {
		vReach("C15.readlv.panic")
		return
	}
	vAssert(s.maxReq <= MaxMessageSize, "C15.readlv-alloc-bounded")
	if n >= 8 && (sz < 0 || sz >= MaxMessageSize) {
		vAssert(err != nil, "C15.readlv-bad-length-is-error")
	}
	if err == nil {
		vAssert(n >= 8 && int64(len(buf)) == sz && sz <= int64(n-8), "C15.readlv-success-length")
		ok := len(buf) <= n-8
		for i := 0; ok && i < len(buf); i++ {
			ok = buf[i] == s.data[8+i]
		}
		vAssert(ok, "C15.readlv-success-payload")
		vReach("C15.readlv.ok")
	} else {
		// an error must only be reported when the frame is malformed or truncated
		vAssert(n < 8 || sz < 0 || sz >= MaxMessageSize || sz > int64(n-8), "C15.readlv-error-only-if-bad")
		vReach("C15.readlv.err")
	}
}

// WriteTLV then ReadTLV is the identity on (type, payload) for payloads up to 6 bytes.
func VerifHarness_C15_TLVRoundTrip() {
	typ := vByte("typ")
	payload := vBytes("payload", vLen("payloadLen", 0, 6))
	var w bytes.Buffer
	err := WriteTLV(&w, typ, payload)
	vAssert(err == nil, "C15.tlv-write-ok")
	s := &vStream{data: w.Bytes(), shortAt: vLen("shortAt", 0, 3) - 1}
	vAssert(len(s.data) == 9+len(payload), "C15.tlv-frame-length")
	t2, b2, err := ReadTLV(s)
	vAssert(err == nil, "C15.tlv-read-ok")
	vAssert(t2 == typ, "C15.tlv-type")
	vAssert(bytes.Equal(b2, payload), "C15.tlv-payload")
	vObserve("typ", t2)
	vObserve("payload", b2)
	vReach("C15.tlv.end")
}

// --- K3: a write request whose envelope is valid but whose points are arbitrary bytes

type vC15Store struct {
	TSDBStore // unimplemented methods panic if reached
	writes    int
	gotNil    bool
	npoints   int
	notFound  bool
}

func (s *vC15Store) WriteToShard(shardID uint64, points []models.Point) error {
	s.writes++
	s.npoints = len(points)
	for _, p := range points {
		if p == nil {
			s.gotNil = true
		}
	}
	return nil
}

func (s *vC15Store) CreateShard(database, policy string, shardID uint64, enabled bool) error {
	return nil
}

var vC15ReqModel *WriteShardRequest

// vC15Request renders a write-shard request (native: the real protobuf encoding).
func vC15Request(shard uint64, points [][]byte) []byte {
	var r WriteShardRequest
	r.SetShardID(shard)
	r.SetDatabase("db")
	r.SetRetentionPolicy("rp")
	r.SetBinaryPoints(points)
	b, err := r.MarshalBinary()
	if err != nil {
		panic(err)
	}
	return b
}

// engine-side models: the protobuf envelope is handed over as a struct
func vC15RequestModel(shard uint64, points [][]byte) []byte {
	r := &WriteShardRequest{}
	r.SetShardID(shard)
	r.SetDatabase("db")
	r.SetRetentionPolicy("rp")
	r.SetBinaryPoints(points)
	vC15ReqModel = r
	return []byte{1}
}

func vC15UnmarshalRequest(w *WriteShardRequest, buf []byte) error {
	w.pb = vC15ReqModel.pb
	return nil
}

// processWriteShardRequest with 1..2 binary points of arbitrary bytes: the node does not crash,
// the store never sees a nil point, and an undecodable point is answered with an error.
func VerifHarness_C15_WriteShardArbitraryPoints() {
	maxPts, maxFields, maxRaw := 1, 3, 6
	if vThorough() {
		maxPts, maxFields, maxRaw = 2, 4, 9
	}
	n := vLen("points", 1, maxPts)
	if n == 2 {
		// two points (thorough): the per-point paths multiply, so each point is shorter
		maxFields, maxRaw = 2, 4
	}
	var raw [][]byte
	for i := 0; i < n; i++ {
		if vBool("structuredPoint") {
			// well-formed frame (1-byte key, 0..4 arbitrary field bytes, valid timestamp):
			// reaches the field iterator with arbitrary field text
			tb, _ := time.Unix(0, 1700000000000000000).UTC().MarshalBinary()
			fields := vBytes("fields", vLen("fieldsLen", 0, maxFields))
			p := []byte{0, 0, 0, 1, vByte("key"), 0, 0, 0, byte(len(fields))}
			p = append(p, fields...)
			p = append(p, tb...)
			raw = append(raw, p)
		} else {
			raw = append(raw, vBytes("point", vLen("pointLen", 0, maxRaw)))
		}
	}
	decodable := true
	for _, b := range raw {
		if _, err := models.NewPointFromBytes(append([]byte(nil), b...)); err != nil {
			decodable = false
		}
	}
	st := &vC15Store{}
	s := NewService(Config{})
	s.TSDBStore = st
	buf := vC15Request(7, raw)
	panicked := true
	var err error
	func() {
		defer func() { recover() }()
		err = s.processWriteShardRequest(buf)
		panicked = false
	}()
	vAssert(!panicked, "C15.write-request-no-panic")
	// known finding C15-F2: an undecodable point is logged and passed on as a nil Point
	vAssertKF(!st.gotNil, "C15.store-never-receives-a-nil-point", !decodable, "C15-F2")
	if !decodable {
		vAssertKF(err != nil, "C15.undecodable-point-is-answered-with-an-error", true, "C15-F2")
	} else {
		vAssert(err == nil && st.writes == 1 && st.npoints == n, "C15.decodable-points-are-written")
	}
	vObserve("decodable", decodable)
	vReach("C15.writeshard.end")
}

type vUnmarshalRec struct {
	got  []byte
	fail bool
}

func (u *vUnmarshalRec) UnmarshalBinary(b []byte) error {
	u.got = append([]byte(nil), b...)
	if u.fail {
		return errors.New("bad payload")
	}
	return nil
}

// DecodeLV hands exactly the framed payload to the unmarshaler and propagates its error.
func VerifHarness_C15_DecodeLV() {
	payload := vBytes("payload", vLen("payloadLen", 0, 4))
	var w bytes.Buffer
	vAssume(WriteLV(&w, payload) == nil)
	extra := vBytes("trailing", vLen("trailingLen", 0, 2))
	w.Write(extra)
	u := &vUnmarshalRec{fail: vBool("unmarshalFails")}
	s := &vStream{data: w.Bytes(), shortAt: -1}
	err := DecodeLV(s, u)
	vAssert((err != nil) == u.fail, "C15.decodelv-error-propagates")
	vAssert(bytes.Equal(u.got, payload), "C15.decodelv-payload")
	vAssert(s.off == 8+len(payload), "C15.decodelv-consumes-exactly-frame")
	vReach("C15.decodelv.end")
}

// --- K2 (one handler): a CreateIterator request whose length/value part is malformed - negative
// or oversized length, truncated frame, undecodable payload - is answered and never takes the
// connection handler (and with it the node) down. The tracing package runs for real here.

type vC15IterStore struct {
	TSDBStore // unimplemented methods panic if reached
}

func (vC15IterStore) ShardGroup(ids []uint64) tsdb.ShardGroup { return nil }

type vC15Conn struct {
	vC05Conn
	wrote int
}

func (c *vC15Conn) Write(p []byte) (int, error) { c.wrote += len(p); return len(p), nil }

var vC15Replies int

// engine-side models of the protobuf-backed request decoder and reply encoder
func vC15UnmarshalCreateIterator(r *CreateIteratorRequest, data []byte) error {
	if vEnvChoice("createIteratorPayloadUndecodable", 2) == 1 {
		return errors.New("proto: CreateIteratorRequest: illegal tag 0")
	}
	return nil
}

func vC15EncodeTLVModel(w io.Writer, typ byte, v encoding.BinaryMarshaler) error {
	vC15Replies++
	return nil
}

func VerifHarness_C15_CreateIteratorMalformed() {
	vC15Replies = 0
	maxN := 10
	if vThorough() {
		maxN = 12
	}
	data := vBytes("stream", vLen("streamLen", 0, maxN))
	conn := &vC15Conn{vC05Conn: vC05Conn{r: bytes.NewReader(data)}}
	s := NewService(Config{})
	s.TSDBStore = vC15IterStore{}
	panicked := true
	func() {
		defer func() { recover() }()
		s.processCreateIteratorRequest(conn)
		panicked = false
	}()
	vAssert(!panicked, "C15.malformed-create-iterator-request-no-panic")
	vAssert(panicked || conn.wrote > 0 || vC15Replies > 0, "C15.create-iterator-request-is-answered")
	vObserve("panicked", panicked)
	vReach("C15.createiterator.end")
}
