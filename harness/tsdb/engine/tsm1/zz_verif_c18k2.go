//go:build verif_harness

package tsm1

// C18-K2: the time-bounded backup (Engine.Export -> timeStampFilterTarFile / filterFileToBackup)
// puts into the archive every block of a TSM file that overlaps the requested window
// [start, end] (both inclusive), so that a shard restored from the archive returns every point
// of the window that the source returns.
//
// The harness writes a real TSM file (real TSMWriter), runs the real per-file filter on it and
// reads the exported file back with the real TSMReader. In the engine the tar writer is a
// recorder (pkg/tar.StreamFile / StreamRenameFile -> list of (name, bytes)) and mmap is a read of
// the file model; natively the real tar stream is produced and parsed.

import (
	"archive/tar"
	"bufio"
	"bytes"
	"io"
	"os"
	"path/filepath"
	"time"
)

func init() {
	vRegister("VerifHarness_C18_TimeBoundedExport", VerifHarness_C18_TimeBoundedExport)
}

type vC18Out struct {
	name    string
	content []byte
}

var vC18Outs []vC18Out

// engine-side models of pkg/tar.StreamFile / StreamRenameFile
func vC18StreamFile(fi os.FileInfo, shardRelativePath, fullPath string, tw *tar.Writer) error {
	return vC18StreamRenameFile(fi, fi.Name(), shardRelativePath, fullPath, tw)
}

func vC18StreamRenameFile(fi os.FileInfo, tarHeaderFileName, relativePath, fullPath string, tw *tar.Writer) error {
	b, err := os.ReadFile(fullPath)
	if err != nil {
		return err
	}
	vC18Outs = append(vC18Outs, vC18Out{name: filepath.ToSlash(filepath.Join(relativePath, tarHeaderFileName)), content: b})
	return nil
}

// vC18Exported lists what was put into the archive: natively by parsing the tar stream, in the
// engine (replaced by vC18ExportedModel) from the recorder.
func vC18Exported(tw *tar.Writer, buf *bytes.Buffer) []vC18Out {
	if err := tw.Close(); err != nil {
		panic(err)
	}
	var outs []vC18Out
	tr := tar.NewReader(buf)
	for {
		h, err := tr.Next()
		if err == io.EOF {
			break
		}
		if err != nil {
			panic(err)
		}
		b, err := io.ReadAll(tr)
		if err != nil {
			panic(err)
		}
		outs = append(outs, vC18Out{name: h.Name, content: b})
	}
	return outs
}

func vC18ExportedModel(tw *tar.Writer, buf *bytes.Buffer) []vC18Out { return vC18Outs }

func vC18Munmap(b []byte) error          { return nil }
func vC18Madvise(b []byte, adv int) error { return nil }

type vC18Block struct {
	key      string
	min, max int64
}

func vC18ReadBlocks(path string) ([]vC18Block, error) {
	f, err := os.Open(path)
	if err != nil {
		return nil, err
	}
	r, err := NewTSMReader(f)
	if err != nil {
		return nil, err
	}
	defer r.Close()
	var out []vC18Block
	for i := 0; i < r.KeyCount(); i++ {
		key, _ := r.KeyAt(i)
		for _, e := range r.Entries(key) {
			out = append(out, vC18Block{string(key), e.MinTime, e.MaxTime})
		}
	}
	return out, nil
}

func VerifHarness_C18_TimeBoundedExport() {
	vC18Outs = nil
	dir, err := os.MkdirTemp("", "verif-export-")
	if err != nil {
		panic(err)
	}
	defer os.RemoveAll(dir)
	name := "000000001-000000001.tsm"
	full := filepath.Join(dir, name)

	// source file: key "cpu" with 1..2 blocks, optionally key "mem" with one block; block time
	// ranges symbolic (sorted and disjoint inside a key, as the writer guarantees)
	f, err := os.OpenFile(full, os.O_CREATE|os.O_RDWR, 0666)
	vAssume(err == nil)
	w, err := NewTSMWriter(f)
	vAssume(err == nil)
	var blocks []vC18Block
	nCPU := vLen("cpuBlocks", 1, 2)
	var prev int64
	for i := 0; i < nCPU; i++ {
		lo, hi := vInt64("blockMin"), vInt64("blockMax")
		vAssume(lo <= hi)
		if i > 0 {
			vAssume(lo > prev)
		}
		prev = hi
		vAssume(w.WriteBlock([]byte("cpu"), lo, hi, []byte{BlockInteger, byte(0x10 + i), 2, 3}) == nil)
		blocks = append(blocks, vC18Block{"cpu", lo, hi})
	}
	if vBool("secondKey") {
		lo, hi := vInt64("blockMin"), vInt64("blockMax")
		vAssume(lo <= hi)
		vAssume(w.WriteBlock([]byte("mem"), lo, hi, []byte{BlockInteger, 0x20, 5, 6}) == nil)
		blocks = append(blocks, vC18Block{"mem", lo, hi})
	}
	vAssume(w.WriteIndex() == nil)
	vAssume(w.Close() == nil)

	// the requested window; Export converts it from time.Time with UnixNano, i.e. any instants
	// representable as int64 nanoseconds
	start, end := vInt64("start"), vInt64("end")
	vAssume(start <= end)

	e := &Engine{path: dir}
	var buf bytes.Buffer
	tw := tar.NewWriter(&buf)
	fi, err := os.Stat(full)
	vAssume(err == nil)
	filter := e.timeStampFilterTarFile(time.Unix(0, start), time.Unix(0, end))
	ferr := filter(fi, filepath.Join("db", "rp", "7"), full, tw)

	anyOverlap := false
	for _, b := range blocks {
		anyOverlap = vOr(anyOverlap, vAnd(b.min <= end, b.max >= start))
	}
	vObserve("err", ferr != nil)
	if ferr != nil {
		// an error is acceptable only when the file has nothing to contribute (the filtered file
		// would be empty); otherwise the backup lacks data
		vAssert(!anyOverlap, "C18.export-fails-only-with-nothing-to-export")
		vReach("C18.export.error")
		return
	}
	outs := vC18Exported(tw, &buf)
	// The file may legitimately appear twice under the same name (a file whose range equals the
	// window is both filtered and streamed whole; the restore overwrites or de-duplicates): the
	// archive's content for this file is the union of its entries.
	vAssert(len(outs) <= 2, "C18.export-writes-the-file-at-most-twice")
	var got []vC18Block
	for _, o := range outs {
		vAssert(o.name == "db/rp/7/"+name, "C18.export-keeps-the-file-name")
		back := filepath.Join(dir, "restored.tsm")
		vAssume(os.WriteFile(back, o.content, 0666) == nil)
		g, err := vC18ReadBlocks(back)
		vAssert(err == nil, "C18.exported-file-is-readable")
		if err != nil {
			return
		}
		got = append(got, g...)
	}
	// every block overlapping the window is in the archive, with its time range
	for _, b := range blocks {
		overlaps := vAnd(b.min <= end, b.max >= start)
		found := false
		for _, g := range got {
			if g.key == b.key {
				found = vOr(found, vAnd(g.min == b.min, g.max == b.max))
			}
		}
		vAssert(vOr(!overlaps, found), "C18.export-contains-every-block-overlapping-the-window")
	}
	// nothing is invented
	for _, g := range got {
		known := false
		for _, b := range blocks {
			if g.key == b.key {
				known = vOr(known, vAnd(g.min == b.min, g.max == b.max))
			}
		}
		vAssert(known, "C18.export-invents-nothing")
	}
	vObserve("exportedBlocks", len(got))
	vReach("C18.export.end")
}

// engine-side: the writer's 1 MB bufio buffers are created with 512 bytes (the flush logic is the
// same; the allocation bound of the engine is 8192 cells)
func vC18SmallBufio(w io.Writer, size int) *bufio.Writer { return bufio.NewWriterSize(w, 512) }
