package main

// Long-lived SMT solver processes (z3 -in / cvc5 --incremental), push/pop synchronised lazily
// with the path condition. Any "(error" line makes a query inconclusive.

import (
	"bufio"
	"fmt"
	"io"
	"os"
	"os/exec"
	"strconv"
	"strings"
	"time"
)

var debugSlow = os.Getenv("VERIF_DEBUG") != ""

type Result int

const (
	Unsat Result = iota
	Sat
	Unknown
)

func (r Result) String() string { return [...]string{"unsat", "sat", "unknown"}[r] }

type SolverStats struct {
	Queries  int
	Sat      int
	Unsat    int
	Unknown  int
	Errors   int
	TimeS    float64
	ModelHit int // feasibility answered by cached model, no query
	Fallback int // queries passed to a fallback back end after the primary said unknown
}

type Solver struct {
	kind   string // "z3", "z3-new", "cvc5", "cvc5-int"
	cmd    *exec.Cmd
	in     io.WriteCloser
	out    *bufio.Reader
	stack  []*Term           // asserted path-condition terms, one push level each
	defLvl map[uint32]int    // term id -> level at which its define-fun/declare was emitted
	defLog [][]uint32        // per level: ids defined at that level
	Stats  SolverStats
	tmoMs  int
	sb     strings.Builder
	dead   bool
	lastErr string
	logf   *os.File
}

func NewSolver(kind string, timeoutMs int) (*Solver, error) {
	var cmd *exec.Cmd
	switch kind {
	case "z3":
		cmd = exec.Command("z3", "-in", "-smt2")
	case "z3-new":
		cmd = exec.Command("z3-new", "-in", "-smt2")
	case "cvc5":
		cmd = exec.Command("cvc5", "--incremental", "--lang=smt2", "--produce-models", fmt.Sprintf("--tlimit-per=%d", timeoutMs))
	case "cvc5-int":
		cmd = exec.Command("cvc5", "--incremental", "--lang=smt2", "--produce-models", "--solve-bv-as-int=sum", fmt.Sprintf("--tlimit-per=%d", timeoutMs))
	default:
		return nil, fmt.Errorf("unknown solver kind %q", kind)
	}
	in, err := cmd.StdinPipe()
	if err != nil {
		return nil, err
	}
	out, err := cmd.StdoutPipe()
	if err != nil {
		return nil, err
	}
	cmd.Stderr = cmd.Stdout
	if err := cmd.Start(); err != nil {
		return nil, err
	}
	s := &Solver{kind: kind, cmd: cmd, in: in, out: bufio.NewReaderSize(out, 1<<16), defLvl: map[uint32]int{}, defLog: [][]uint32{nil}, tmoMs: timeoutMs}
	if d := os.Getenv("VERIF_SOLVER_LOG"); d != "" {
		os.MkdirAll(d, 0o755)
		s.logf, _ = os.Create(fmt.Sprintf("%s/solver-%s-%d.log", d, kind, cmd.Process.Pid))
	}
	if strings.HasPrefix(kind, "z3") {
		s.send(fmt.Sprintf("(set-option :timeout %d)\n(set-option :produce-models true)\n", timeoutMs))
	} else {
		s.send("(set-logic ALL)\n")
	}
	return s, nil
}

func (s *Solver) Close() {
	if s == nil || s.dead {
		return
	}
	s.dead = true
	s.in.Close()
	s.cmd.Process.Kill()
	s.cmd.Wait()
}

func (s *Solver) send(txt string) {
	if s.dead {
		return
	}
	if s.logf != nil {
		fmt.Fprintf(s.logf, ";; >>> %s\n%s", time.Now().Format("15:04:05.000"), txt)
	}
	if _, err := io.WriteString(s.in, txt); err != nil {
		s.dead = true
		s.lastErr = err.Error()
	}
}

func (s *Solver) level() int { return len(s.defLog) - 1 }

func (s *Solver) push() {
	s.sb.WriteString("(push 1)\n") // buffered: must stay in order with the definitions in s.sb
	s.defLog = append(s.defLog, nil)
}

func (s *Solver) pop(n int) {
	if n <= 0 {
		return
	}
	fmt.Fprintf(&s.sb, "(pop %d)\n", n)
	for i := 0; i < n; i++ {
		top := s.defLog[len(s.defLog)-1]
		for _, id := range top {
			delete(s.defLvl, id)
		}
		s.defLog = s.defLog[:len(s.defLog)-1]
	}
}

func sortOf(t *Term) string {
	if t.w == 0 {
		return "Bool"
	}
	return "(_ BitVec " + strconv.Itoa(int(t.w)) + ")"
}

func smtName(t *Term) string {
	if t.op == OpVar {
		return "|" + t.name + "|"
	}
	return "t" + strconv.Itoa(int(t.id))
}

func constLit(t *Term) string {
	if t.w == 0 {
		if t.val != 0 {
			return "true"
		}
		return "false"
	}
	if t.w%4 == 0 {
		return fmt.Sprintf("#x%0*x", int(t.w/4), t.val)
	}
	return fmt.Sprintf("#b%0*b", int(t.w), t.val)
}

func ref(t *Term) string {
	if t.op == OpConst {
		return constLit(t)
	}
	return smtName(t)
}

// define emits declarations/definitions for t's DAG (iteratively, post-order) into s.sb.
func (s *Solver) define(root *Term) {
	if root.op == OpConst {
		return
	}
	if _, ok := s.defLvl[root.id]; ok {
		return
	}
	type fr struct {
		t    *Term
		done bool
	}
	st := []fr{{root, false}}
	lvl := s.level()
	for len(st) > 0 {
		f := st[len(st)-1]
		st = st[:len(st)-1]
		t := f.t
		if t.op == OpConst {
			continue
		}
		if _, ok := s.defLvl[t.id]; ok {
			continue
		}
		if !f.done && t.op != OpVar {
			st = append(st, fr{t, true})
			for _, x := range []*Term{t.c, t.b, t.a} {
				if x != nil && x.op != OpConst {
					if _, ok := s.defLvl[x.id]; !ok {
						st = append(st, fr{x, false})
					}
				}
			}
			continue
		}
		s.defLvl[t.id] = lvl
		s.defLog[lvl] = append(s.defLog[lvl], t.id)
		if t.op == OpVar {
			fmt.Fprintf(&s.sb, "(declare-fun %s () %s)\n", smtName(t), sortOf(t))
			continue
		}
		fmt.Fprintf(&s.sb, "(define-fun %s () %s ", smtName(t), sortOf(t))
		switch t.op {
		case OpExtract:
			fmt.Fprintf(&s.sb, "((_ extract %d %d) %s)", t.val>>8, t.val&0xff, ref(t.a))
		case OpZExt:
			fmt.Fprintf(&s.sb, "((_ zero_extend %d) %s)", t.w-t.a.w, ref(t.a))
		case OpSExt:
			fmt.Fprintf(&s.sb, "((_ sign_extend %d) %s)", t.w-t.a.w, ref(t.a))
		default:
			s.sb.WriteString("(" + opNames[t.op])
			for _, x := range []*Term{t.a, t.b, t.c} {
				if x != nil {
					s.sb.WriteString(" " + ref(x))
				}
			}
			s.sb.WriteString(")")
		}
		s.sb.WriteString(")\n")
	}
}

func (s *Solver) flush() {
	if s.sb.Len() > 0 {
		s.send(s.sb.String())
		s.sb.Reset()
	}
}

// Sync makes the solver's assertion stack equal to pc (pointer-equal prefix reuse).
func (s *Solver) Sync(pc []*Term) {
	k := 0
	for k < len(s.stack) && k < len(pc) && s.stack[k] == pc[k] {
		k++
	}
	if k < len(s.stack) {
		s.pop(len(s.stack) - k)
		s.stack = s.stack[:k]
	}
	for ; k < len(pc); k++ {
		s.push()
		s.define(pc[k])
		fmt.Fprintf(&s.sb, "(assert %s)\n", ref(pc[k]))
		s.stack = append(s.stack, pc[k])
	}
	s.flush()
}

func (s *Solver) readLine() (string, bool) {
	line, err := s.out.ReadString('\n')
	if err != nil {
		s.dead = true
		s.lastErr = "solver died: " + err.Error()
		return "", false
	}
	if s.logf != nil {
		fmt.Fprintf(s.logf, ";; <<< %s %s", time.Now().Format("15:04:05.000"), line)
	}
	return strings.TrimSpace(line), true
}

// Check asks sat(pc ∧ extra...). If wantModel and sat, returns values for vars.
func (s *Solver) Check(pc []*Term, extra []*Term, vars []*Term) (Result, map[string]uint64) {
	if s.dead {
		return Unknown, nil
	}
	t0 := time.Now()
	defer func() {
		dt := time.Since(t0).Seconds()
		s.Stats.TimeS += dt
		if dt > 2 && debugSlow {
			fmt.Fprintf(os.Stderr, "slow incremental query (%s): %.1fs pc=%d\n", s.kind, dt, len(pc))
		}
	}()
	s.Stats.Queries++
	s.Sync(pc)
	s.push()
	for _, e := range extra {
		s.define(e)
		fmt.Fprintf(&s.sb, "(assert %s)\n", ref(e))
	}
	for _, v := range vars {
		s.define(v)
	}
	s.sb.WriteString("(check-sat)\n")
	s.flush()
	res := Unknown
	sawErr := false
verdict:
	for {
		line, ok := s.readLine()
		if !ok {
			s.Stats.Errors++
			return Unknown, nil
		}
		if line == "" {
			continue
		}
		if strings.HasPrefix(line, "(error") {
			s.Stats.Errors++
			s.lastErr = line
			sawErr = true
			// the check-sat answer still follows
			continue
		}
		switch line {
		case "sat":
			res = Sat
		case "unsat":
			res = Unsat
		case "unknown", "timeout":
			res = Unknown
		default:
			continue
		}
		break verdict
	}
	if sawErr {
		res = Unknown // an error was printed before the verdict: inconclusive
	}
	var model map[string]uint64
	if res == Sat && len(vars) > 0 {
		model = s.getValues(vars)
		if model == nil {
			res = Unknown
		}
	}
	s.pop(1)
	s.flush()
	switch res {
	case Sat:
		s.Stats.Sat++
	case Unsat:
		s.Stats.Unsat++
	default:
		s.Stats.Unknown++
	}
	return res, model
}

func (s *Solver) getValues(vars []*Term) map[string]uint64 {
	model := make(map[string]uint64, len(vars))
	// chunk to keep lines manageable
	for i := 0; i < len(vars); i += 64 {
		j := i + 64
		if j > len(vars) {
			j = len(vars)
		}
		s.sb.WriteString("(get-value (")
		for _, v := range vars[i:j] {
			s.sb.WriteString(smtName(v) + " ")
		}
		s.sb.WriteString("))\n")
		s.flush()
		// read until parentheses balance
		depth, started := 0, false
		var buf strings.Builder
		for !started || depth > 0 {
			line, ok := s.readLine()
			if !ok {
				return nil
			}
			if strings.HasPrefix(line, "(error") {
				s.Stats.Errors++
				s.lastErr = line
				return nil
			}
			for _, ch := range line {
				if ch == '(' {
					depth++
					started = true
				} else if ch == ')' {
					depth--
				}
			}
			buf.WriteString(line)
			buf.WriteByte(' ')
		}
		txt := buf.String()
		for _, v := range vars[i:j] {
			key := smtName(v) + " "
			p := strings.Index(txt, "("+key)
			if p < 0 {
				return nil
			}
			rest := txt[p+1+len(key):]
			q := strings.IndexByte(rest, ')')
			val := strings.TrimSpace(rest[:q])
			var u uint64
			switch {
			case val == "true":
				u = 1
			case val == "false":
				u = 0
			case strings.HasPrefix(val, "#x"):
				u, _ = strconv.ParseUint(val[2:], 16, 64)
			case strings.HasPrefix(val, "#b"):
				u, _ = strconv.ParseUint(val[2:], 2, 64)
			case strings.HasPrefix(val, "(_ bv"):
				f := strings.Fields(val[5:])
				u, _ = strconv.ParseUint(f[0], 10, 64)
			default:
				return nil
			}
			model[v.name] = u
		}
	}
	return model
}

// StandaloneSMT renders sat(pc ∧ extra) as a self-contained SMT-LIB2 script (debugging, solver diff).
func StandaloneSMT(pc []*Term, extra []*Term) string {
	s := &Solver{defLvl: map[uint32]int{}, defLog: [][]uint32{nil}, dead: true}
	for _, t := range append(append([]*Term{}, pc...), extra...) {
		s.define(t)
		fmt.Fprintf(&s.sb, "(assert %s)\n", ref(t))
	}
	s.sb.WriteString("(check-sat)\n")
	return s.sb.String()
}
