//go:build verif_harness

package tsm1

// WAL framing (C13-L7 / C01-K1): entries survive encoding; a segment cut at any byte offset replays
// exactly the complete entries before the cut, without crashing; Count() is the valid prefix.

import (
	"bytes"
	"io"
)

func init() {
	vRegister("VerifHarness_WAL_CutAnywhere", VerifHarness_WAL_CutAnywhere)
	vRegister("VerifHarness_WAL_UnmarshalArbitrary", VerifHarness_WAL_UnmarshalArbitrary)
	vRegister("VerifHarness_WAL_CorruptPayload", VerifHarness_WAL_CorruptPayload)
}

type vWALCloser struct{ *bytes.Buffer }

func (vWALCloser) Close() error { return nil }

type vWALReadCloser struct{ *bytes.Reader }

func (vWALReadCloser) Close() error { return nil }

type vWALEntrySpec struct {
	kind   int
	key    string
	ts, vs []int64
	bs     []bool
	ss     []string
	valTyp int
	min    int64
	max    int64
}

func vWALMakeEntry() (WALEntry, vWALEntrySpec) {
	sp := vWALEntrySpec{kind: vChoice("entryKind", 3), key: []string{"cpu", "m"}[vChoice("key", 2)]}
	switch sp.kind {
	case 0:
		n := vLen("values", 1, 2)
		sp.valTyp = vChoice("valueType", 3)
		var vals []Value
		for i := 0; i < n; i++ {
			t := vInt64("t")
			sp.ts = append(sp.ts, t)
			switch sp.valTyp {
			case 0:
				v := vInt64("v")
				sp.vs = append(sp.vs, v)
				vals = append(vals, NewIntegerValue(t, v))
			case 1:
				b := vBool("b")
				sp.bs = append(sp.bs, b)
				vals = append(vals, NewBooleanValue(t, b))
			default:
				s := vString("s", vLen("slen", 0, 2))
				sp.ss = append(sp.ss, s)
				vals = append(vals, NewStringValue(t, s))
			}
		}
		return &WriteWALEntry{Values: map[string][]Value{sp.key: vals}}, sp
	case 1:
		return &DeleteWALEntry{Keys: [][]byte{[]byte(sp.key)}}, sp
	}
	sp.min, sp.max = vInt64("min"), vInt64("max")
	return &DeleteRangeWALEntry{Keys: [][]byte{[]byte(sp.key)}, Min: sp.min, Max: sp.max}, sp
}

func vWALCheckEntry(e WALEntry, sp vWALEntrySpec) {
	switch sp.kind {
	case 0:
		w, ok := e.(*WriteWALEntry)
		vAssert(ok, "WAL.entry-kind-preserved")
		if !ok {
			return
		}
		vals := w.Values[sp.key]
		vAssert(len(w.Values) == 1 && len(vals) == len(sp.ts), "WAL.write-entry-shape-preserved")
		for i := range vals {
			if i >= len(sp.ts) {
				break
			}
			vAssert(vals[i].UnixNano() == sp.ts[i], "WAL.timestamp-preserved")
			switch sp.valTyp {
			case 0:
				iv, ok := vals[i].(IntegerValue)
				vAssert(ok && iv.value == sp.vs[i], "WAL.value-preserved")
			case 1:
				bv, ok := vals[i].(BooleanValue)
				vAssert(ok && bv.value == sp.bs[i], "WAL.value-preserved")
			default:
				sv, ok := vals[i].(StringValue)
				vAssert(ok && sv.value == sp.ss[i], "WAL.value-preserved")
			}
		}
	case 1:
		d, ok := e.(*DeleteWALEntry)
		vAssert(ok && len(d.Keys) == 1 && string(d.Keys[0]) == sp.key, "WAL.delete-entry-preserved")
	default:
		d, ok := e.(*DeleteRangeWALEntry)
		vAssert(ok && len(d.Keys) == 1 && string(d.Keys[0]) == sp.key && d.Min == sp.min && d.Max == sp.max, "WAL.delete-range-entry-preserved")
	}
}

func VerifHarness_WAL_CutAnywhere() {
	max := 2 // three entries exceed 4 M paths; the per-entry framing is what generalises
	n := vLen("entries", 1, max)
	var buf bytes.Buffer
	w := NewWALSegmentWriter(vWALCloser{&buf})
	var specs []vWALEntrySpec
	var ends []int
	for i := 0; i < n; i++ {
		e, sp := vWALMakeEntry()
		raw, err := e.Encode(nil)
		vAssert(err == nil, "WAL.encode-ok")
		if err != nil {
			return
		}
		comp := vWALCompress(raw)
		vAssert(w.Write(e.Type(), comp) == nil, "WAL.write-ok")
		vAssert(w.Flush() == nil, "WAL.flush-ok")
		specs = append(specs, sp)
		ends = append(ends, buf.Len())
	}
	total := buf.Len()
	// cut inside (or at the end of) entry number cutEntry, cutPos bytes after its start; the
	// position is clipped to the entry's framed length, which differs between the engine's snappy
	// model and the real snappy of the native build
	ce := vLen("cutEntry", 0, n-1)
	start := 0
	if ce > 0 {
		start = ends[ce-1]
	}
	cut := start + vLen("cutPos", 0, 48)
	if cut > ends[ce] {
		cut = ends[ce]
	}
	_ = total
	seg := append([]byte(nil), buf.Bytes()[:cut]...)
	complete := 0
	for _, e := range ends {
		if e <= cut {
			complete++
		}
	}
	r := NewWALSegmentReader(vWALReadCloser{bytes.NewReader(seg)})
	got := 0
	var lastErr error
	for i := 0; i < n+1; i++ {
		if !r.Next() {
			break
		}
		e, err := r.Read()
		if err != nil {
			lastErr = err
			break
		}
		vAssert(got < complete, "WAL.torn-tail-yields-no-entry")
		if got < len(specs) {
			vWALCheckEntry(e, specs[got])
		}
		got++
	}
	vAssert(got == complete, "WAL.every-complete-entry-before-the-cut-is-replayed")
	want := 0
	if complete > 0 {
		want = ends[complete-1]
	}
	vAssert(r.Count() == int64(want), "WAL.count-is-length-of-valid-prefix")
	if cut == want {
		vAssert(lastErr == nil, "WAL.clean-cut-is-not-an-error")
	} else {
		vAssert(lastErr != nil, "WAL.torn-tail-is-reported")
		_ = io.EOF
	}
	vObserve("replayedAllComplete", got == complete)
	vReach("WAL.cut.end")
}

// A well-framed entry whose payload is arbitrary bytes: it is either decoded or reported as an
// error, and Count() never includes an entry that was not decoded (CacheLoader truncates the
// segment to Count()).
func VerifHarness_WAL_CorruptPayload() {
	var buf bytes.Buffer
	w := NewWALSegmentWriter(vWALCloser{&buf})
	e, sp := vWALMakeEntry()
	raw, err := e.Encode(nil)
	vAssume(err == nil)
	vAssume(w.Write(e.Type(), vWALCompress(raw)) == nil && w.Flush() == nil)
	firstEnd := buf.Len()
	junk := vBytes("payload", vLen("len", 0, 5))
	typ := WalEntryType(vByte("entryType"))
	vAssume(w.Write(typ, vWALCompress(junk)) == nil && w.Flush() == nil)
	total := buf.Len()
	r := NewWALSegmentReader(vWALReadCloser{bytes.NewReader(append([]byte(nil), buf.Bytes()...))})
	vAssert(r.Next(), "WAL.first-entry-present")
	got, err := r.Read()
	vAssert(err == nil, "WAL.first-entry-decodes")
	if err == nil {
		vWALCheckEntry(got, sp)
	}
	vAssert(r.Count() == int64(firstEnd), "WAL.count-is-length-of-valid-prefix")
	if r.Next() {
		_, err2 := r.Read()
		if err2 != nil {
			vAssert(r.Count() == int64(firstEnd), "WAL.count-excludes-undecodable-entry")
		} else {
			vAssert(r.Count() == int64(total), "WAL.count-is-length-of-valid-prefix")
		}
		vObserve("secondOK", err2 == nil)
	} else {
		vFail("WAL.framed-entry-not-skipped")
	}
	vReach("WAL.corrupt.end")
}

// vWALCompress: what WAL.writeToLog does with the encoded entry (snappy.Encode).
func vWALCompress(raw []byte) []byte { return vSnappyFacade(raw) }

// Arbitrary bytes offered to the entry decoders never crash them.
func VerifHarness_WAL_UnmarshalArbitrary() {
	max := 6
	if vThorough() {
		max = 10
	}
	b := vBytes("payload", vLen("len", 0, max))
	var err error
	switch vChoice("entryKind", 3) {
	case 0:
		e := &WriteWALEntry{Values: map[string][]Value{}}
		err = e.UnmarshalBinary(b)
	case 1:
		e := &DeleteWALEntry{}
		err = e.UnmarshalBinary(b)
	default:
		e := &DeleteRangeWALEntry{}
		err = e.UnmarshalBinary(b)
	}
	vObserve("err", err != nil)
	vReach("WAL.unmarshal.end")
}
