//go:build verif_harness

package meta

// C07-K2: what a follower installs from a snapshot is what the leader published. The snapshot
// image of the metadata (Data.marshal -> internal.Data -> Data.unmarshal, the message level of
// MarshalBinary/UnmarshalBinary) and Data.Clone reproduce every field of a Data value; restoring
// changes nothing the cluster decides by (shard ownership, time ranges, truncation and deletion
// marks, retention, users and grants, id counters).

import (
	"time"

	"github.com/influxdata/influxql"
)

func init() {
	vRegister("VerifHarness_C07_DataRoundTrip", VerifHarness_C07_DataRoundTrip)
}

// same instant, or both the zero time (fork-free)
func vC07SameTime(a, b time.Time) bool {
	az, bz := a.IsZero(), b.IsZero()
	return vOr(vAnd(az, bz), vAnd(vAnd(!az, !bz), a.UnixNano() == b.UnixNano()))
}

func vC07CompareNodes(a, b []NodeInfo, label string) {
	vAssert(len(a) == len(b), label)
	for i := 0; i < len(a) && i < len(b); i++ {
		vAssert(a[i] == b[i], label)
	}
}

func vC07CompareData(a, b *Data, p string) {
	vAssert(vAnd(vAnd(a.Term == b.Term, a.Index == b.Index), a.ClusterID == b.ClusterID), p+"-raft-position-and-cluster-id")
	vAssert(vAnd(vAnd(a.MaxNodeID == b.MaxNodeID, a.MaxShardGroupID == b.MaxShardGroupID), a.MaxShardID == b.MaxShardID), p+"-id-counters")
	vAssert(a.adminUserExists == b.adminUserExists, p+"-admin-user-flag")
	vC07CompareNodes(a.DataNodes, b.DataNodes, p+"-data-nodes")
	vC07CompareNodes(a.MetaNodes, b.MetaNodes, p+"-meta-nodes")
	vAssert(len(a.Databases) == len(b.Databases), p+"-databases")
	for i := 0; i < len(a.Databases) && i < len(b.Databases); i++ {
		da, db := &a.Databases[i], &b.Databases[i]
		vAssert(da.Name == db.Name, p+"-databases")
		vAssert(da.DefaultRetentionPolicy == db.DefaultRetentionPolicy, p+"-default-retention-policy")
		vAssert(len(da.ContinuousQueries) == len(db.ContinuousQueries), p+"-continuous-queries")
		for j := 0; j < len(da.ContinuousQueries) && j < len(db.ContinuousQueries); j++ {
			vAssert(da.ContinuousQueries[j] == db.ContinuousQueries[j], p+"-continuous-queries")
		}
		vAssert(len(da.RetentionPolicies) == len(db.RetentionPolicies), p+"-retention-policies")
		for j := 0; j < len(da.RetentionPolicies) && j < len(db.RetentionPolicies); j++ {
			ra, rb := &da.RetentionPolicies[j], &db.RetentionPolicies[j]
			vAssert(ra.Name == rb.Name, p+"-retention-policies")
			vAssert(ra.ReplicaN == rb.ReplicaN, p+"-replication-factor")
			vAssert(vAnd(ra.Duration == rb.Duration, ra.ShardGroupDuration == rb.ShardGroupDuration), p+"-retention-durations")
			vAssert(len(ra.Subscriptions) == len(rb.Subscriptions), p+"-subscriptions")
			for k := 0; k < len(ra.Subscriptions) && k < len(rb.Subscriptions); k++ {
				sa, sb := &ra.Subscriptions[k], &rb.Subscriptions[k]
				vAssert(sa.Name == sb.Name, p+"-subscriptions")
				vAssert(sa.Mode == sb.Mode, p+"-subscriptions")
				vAssert(len(sa.Destinations) == len(sb.Destinations), p+"-subscriptions")
				for m := 0; m < len(sa.Destinations) && m < len(sb.Destinations); m++ {
					vAssert(sa.Destinations[m] == sb.Destinations[m], p+"-subscriptions")
				}
			}
			vAssert(len(ra.ShardGroups) == len(rb.ShardGroups), p+"-shard-groups")
			for k := 0; k < len(ra.ShardGroups) && k < len(rb.ShardGroups); k++ {
				ga, gb := &ra.ShardGroups[k], &rb.ShardGroups[k]
				vAssert(ga.ID == gb.ID, p+"-shard-groups")
				vAssert(vC07SameTime(ga.StartTime, gb.StartTime), p+"-shard-group-start")
				vAssert(vC07SameTime(ga.EndTime, gb.EndTime), p+"-shard-group-end")
				vAssert(vC07SameTime(ga.DeletedAt, gb.DeletedAt), p+"-shard-group-deletion-mark")
				vAssert(vC07SameTime(ga.TruncatedAt, gb.TruncatedAt), p+"-shard-group-truncation-mark")
				vAssert(len(ga.Shards) == len(gb.Shards), p+"-shards")
				for m := 0; m < len(ga.Shards) && m < len(gb.Shards); m++ {
					ha, hb := &ga.Shards[m], &gb.Shards[m]
					vAssert(ha.ID == hb.ID, p+"-shards")
					vAssert(len(ha.Owners) == len(hb.Owners), p+"-shard-owners")
					for o := 0; o < len(ha.Owners) && o < len(hb.Owners); o++ {
						vAssert(ha.Owners[o].NodeID == hb.Owners[o].NodeID, p+"-shard-owners")
					}
				}
			}
		}
	}
	vAssert(len(a.Users) == len(b.Users), p+"-users")
	for i := 0; i < len(a.Users) && i < len(b.Users); i++ {
		ua, ub := &a.Users[i], &b.Users[i]
		vAssert(ua.Name == ub.Name, p+"-users")
		vAssert(ua.Hash == ub.Hash, p+"-password-hashes")
		vAssert(ua.Admin == ub.Admin, p+"-admin-flags")
		vAssert(len(ua.Privileges) == len(ub.Privileges), p+"-grants")
		for k, v := range ua.Privileges {
			w, ok := ub.Privileges[k]
			vAssert(ok, p+"-grants")
			vAssert(v == w, p+"-grants")
		}
	}
}

var vC07Durations = []time.Duration{0, time.Hour, 7 * 24 * time.Hour}

func VerifHarness_C07_DataRoundTrip() {
	// The fields convert independently of each other, so the structure is taken from a few shapes
	// (everything absent, everything present with two of each, and the empty-list corner cases)
	// instead of the full product; every scalar stays symbolic.
	type shape struct {
		meta                            bool
		dataNodes, subDests, groups     int
		shards, owners, users           int
		cq, defaultRP, grants, sub      bool
	}
	shapes := []shape{
		{dataNodes: 1},
		{meta: true, dataNodes: 2, sub: true, subDests: 2, groups: 2, shards: 2, owners: 2, users: 2, cq: true, defaultRP: true, grants: true},
		{meta: true, dataNodes: 2, sub: true, subDests: 1, groups: 1, shards: 1, owners: 1, users: 1, defaultRP: true},
		{dataNodes: 1, groups: 2, shards: 0, users: 2, grants: true, cq: true},
		{dataNodes: 2, groups: 1, shards: 2, owners: 0, users: 1, grants: true},
	}
	sh := shapes[vChoice("shape", len(shapes))]
	d := &Data{Term: vUint64("term"), Index: vUint64("index"), ClusterID: vUint64("clusterID"),
		MaxNodeID: vUint64("maxNodeID"), MaxShardGroupID: vUint64("maxShardGroupID"), MaxShardID: vUint64("maxShardID")}
	if sh.meta {
		d.MetaNodes = []NodeInfo{{ID: vUint64("metaNodeID"), Addr: "m:8091", TCPAddr: "m:8089"}}
	}
	nData := sh.dataNodes
	for i := 0; i < nData; i++ {
		d.DataNodes = append(d.DataNodes, NodeInfo{ID: vUint64("dataNodeID"), Addr: []string{"a:8086", "b:8086"}[i], TCPAddr: []string{"a:8088", "b:8088"}[i]})
	}
	rp := RetentionPolicyInfo{Name: "rp", ReplicaN: int(vRange("replicaN", 1, 3)),
		Duration: time.Duration(vRange("retention", 0, int64(400*24*time.Hour))), ShardGroupDuration: time.Duration(vRange("shardGroupDuration", int64(time.Hour), int64(7*24*time.Hour)))}
	if sh.sub {
		rp.Subscriptions = []SubscriptionInfo{{Name: "sub", Mode: []string{"ALL", "ANY"}[sh.subDests-1], Destinations: []string{"udp://h:9000", "udp://i:9000"}[:sh.subDests]}}
	}
	// shard groups as the mutators leave them: [start, end) within +-3 h of the epoch (to the
	// nanosecond, so that the epoch itself is a possible start and a possible end), end after
	// start; deletion and truncation marks are wall-clock instants, i.e. after the epoch
	w := 3 * int64(time.Hour)
	nG := sh.groups
	for g := 0; g < nG; g++ {
		s := vRange("groupStart", -w, w)
		e := vRange("groupEnd", -w, w)
		vAssume(s < e)
		sg := ShardGroupInfo{ID: vUint64("groupID"), StartTime: time.Unix(0, s).UTC(), EndTime: time.Unix(0, e).UTC()}
		if vBool("deleted") {
			sg.DeletedAt = time.Unix(0, vRange("deletedAt", 1, int64(1)<<62)).UTC()
		}
		if vBool("truncated") {
			sg.TruncatedAt = time.Unix(0, vRange("truncatedAt", 1, int64(1)<<62)).UTC()
		}
		for k := 0; k < sh.shards; k++ {
			si := ShardInfo{ID: vUint64("shardID")}
			for o := 0; o < sh.owners; o++ {
				si.Owners = append(si.Owners, ShardOwner{NodeID: vUint64("ownerID")})
			}
			sg.Shards = append(sg.Shards, si)
		}
		rp.ShardGroups = append(rp.ShardGroups, sg)
	}
	db := DatabaseInfo{Name: "db", RetentionPolicies: []RetentionPolicyInfo{rp}}
	if sh.defaultRP {
		db.DefaultRetentionPolicy = "rp"
	}
	if sh.cq {
		db.ContinuousQueries = []ContinuousQueryInfo{{Name: "cq", Query: "CREATE CONTINUOUS QUERY cq ON db BEGIN SELECT count(v) INTO m2 FROM m GROUP BY time(1h) END"}}
	}
	d.Databases = []DatabaseInfo{db}
	for u := 0; u < sh.users; u++ {
		name := []string{"alice", "bob"}[u]
		vAssume(d.CreateUser(name, "hash-"+name, vBool("admin")) == nil)
		if sh.grants {
			vAssume(d.SetPrivilege(name, "db", influxql.Privilege(vRange("privilege", 0, 3))) == nil)
		}
	}
	vObserve("groups", nG)
	vObserve("admin", d.adminUserExists)

	restored := &Data{}
	restored.unmarshal(d.marshal())
	vC07CompareData(d, restored, "C07.restored-snapshot-keeps")

	clone := d.Clone()
	vC07CompareData(d, clone, "C07.clone-keeps")
	vReach("C07.roundtrip.end")
}
