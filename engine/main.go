package main

// gosym driver: loads /repo's working tree plus overlay harnesses, explores every harness entry
// symbolically on N workers, replays counterexamples and reachability witnesses natively,
// validates the translator on random concrete vectors, writes evidence.

import (
	"encoding/json"
	"flag"
	"fmt"
	"os"
	"os/exec"
	"path/filepath"
	"regexp"
	"sort"
	"strings"
	"sync"
	"sync/atomic"
	"time"

	"golang.org/x/tools/go/packages"
	"golang.org/x/tools/go/ssa"
	"golang.org/x/tools/go/ssa/ssautil"
)

const modPath = "github.com/influxdata/influxdb"

type HarnessSpec struct {
	Name     string   `json:"name"`
	Pkg      string   `json:"pkg"`  // package dir relative to /repo
	Tiers    []string `json:"tiers"` // default both
	Kernel   string   `json:"kernel"`
	Native   *bool    `json:"native"`   // replay natively (default true)
	Validate *bool    `json:"validate"` // translator validation with random vectors (default = native)
	Arith    bool     `json:"arith"`
	MapOrderAny bool  `json:"map_order_any"`
	FifoChans bool    `json:"fifo_chans"`
	Replace  map[string]string `json:"replace"` // additional replacements for this harness only
	Solver   string   `json:"solver"`  // primary back end for this harness (default: the spec's)
	ConcretizeBits bool `json:"concretize_bits"` // fork over the values of bits.LeadingZeros64/TrailingZeros64 results
	MaxConcretize  int  `json:"max_concretize"`
	KeepPkgs       []string `json:"keep_pkgs"` // packages of the default no-op list that this harness executes for real
	Note     string   `json:"note"`
}

type Spec struct {
	Property   string            `json:"property"`
	Level      string            `json:"level"`
	Harnesses  []HarnessSpec     `json:"harnesses"`
	Replace    map[string]string `json:"replace"`  // "os.OpenFile" -> "services/hh.vfOpenFile"
	NoopPkgs   []string          `json:"noop_pkgs"`
	SkipInit   []string          `json:"skip_init"`
	Limits     Limits            `json:"limits"`
	LimitsThorough *Limits       `json:"limits_thorough"`
	MaxAlloc   int               `json:"max_alloc"`
	ClampAlloc bool              `json:"clamp_alloc"`
	UnboundedChans bool          `json:"unbounded_chans"`
	Assumptions []string         `json:"assumptions"`
	Bounds     map[string]interface{} `json:"bounds"`
	BoundsThorough map[string]interface{} `json:"bounds_thorough"`
	Outside    []string          `json:"outside"`
	ValidateN  int               `json:"validate_n"`
	Solver     string            `json:"solver"`
	OneShotS   int               `json:"oneshot_s"`
	ExtraPkgs  []string          `json:"extra_pkgs"` // further harness packages (for replacement targets)
	Vfs        string            `json:"vfs"` // harness package (rel dir) that gets the shared file-system model and owns the os.* replacements
}

type RunCfg struct {
	Tier            string
	Limits          Limits
	MaxAlloc        int
	ClampAlloc      bool
	UnboundedChans  bool
	MapOrderAny     bool
	FifoChans       bool
	ConcretizeBits  bool
	Fallbacks       []string
	OneShotS        int
	MaxViolPerLabel int
	SkipInit        map[string]bool
	noopPkgs        []string
	replFn          map[string]*ssa.Function
	noReplInside    map[*ssa.Function]bool
	harnessPkgs     map[string]bool
}

func (c *RunCfg) isHarnessPkg(p string) bool { return c.harnessPkgs[p] }
func (c *RunCfg) isTargetPkg(p string) bool {
	return strings.HasPrefix(p, modPath) || strings.HasPrefix(p, "github.com/jwilder/encoding") || strings.HasPrefix(p, "github.com/dgryski/go-bitstream")
}
func (c *RunCfg) noopPkg(p string) bool {
	for _, x := range c.noopPkgs {
		if p == x || strings.HasPrefix(p, x+"/") {
			return true
		}
	}
	return false
}

var vfsReplacements = map[string]string{
	"os.OpenFile": "vfsOpenFile", "os.Open": "vfsOpen", "os.Create": "vfsCreate",
	"(*os.File).Read": "vfsRead", "(*os.File).ReadAt": "vfsReadAt", "(*os.File).Write": "vfsWrite", "(*os.File).WriteString": "vfsWriteString",
	"(*os.File).Seek": "vfsSeek", "(*os.File).Sync": "vfsSync", "(*os.File).Truncate": "vfsTruncateFD", "(*os.File).Close": "vfsClose",
	"(*os.File).Name": "vfsName", "(*os.File).Stat": "vfsFileStat", "os.Stat": "vfsStat", "os.Remove": "vfsRemove", "os.RemoveAll": "vfsRemoveAll",
	"os.Rename": "vfsRename", "os.MkdirAll": "vfsMkdirAll", "os.ReadDir": "vfsReadDir", "os.ReadFile": "vfsReadFile", "os.WriteFile": "vfsWriteFile",
	"os.Truncate": "vfsTruncate", "os.MkdirTemp": "vfsMkdirTemp", "path/filepath.Glob": "vfsGlob",
	"(*os.File).ReadFrom": "vfsReadFrom", "(*os.File).WriteTo": "vfsWriteTo",
}

var defaultNoop = []string{"go.uber.org/zap", "log", "github.com/influxdata/influxdb/logger", "expvar", "runtime/debug", "runtime/pprof", "github.com/influxdata/influxdb/pkg/tracing", "github.com/opentracing/opentracing-go"}

type Finding struct {
	Property    string `json:"property"`
	ID          string `json:"id"`
	Harness     string `json:"harness"`
	Label       string `json:"label"`
	Exclusion   string `json:"exclusion"`
	Description string `json:"description"`
	Status      string `json:"status"`
	Commit      string `json:"commit,omitempty"`
}

var (
	verifDir = "/verif"
	repoDir  = "/repo"
)

func fatal2(format string, a ...interface{}) {
	fmt.Printf("BROKEN-CHECK: "+format+"\n", a...)
	os.Exit(2)
}

func main() {
	specPath := flag.String("spec", "", "check spec json")
	tier := flag.String("tier", "quick", "quick|thorough")
	only := flag.String("only", "", "regexp of harness names to run")
	workers := flag.Int("workers", 16, "parallel workers")
	noNative := flag.Bool("no-native", false, "skip native replay/validation (debugging only; exits 2)")
	replay := flag.String("replay", "", "replay file to run natively")
	trace := flag.Bool("trace", false, "print per-harness progress")
	flag.Parse()
	if v := os.Getenv("VERIF_DIR"); v != "" {
		verifDir = v
	}
	if v := os.Getenv("VERIF_REPO"); v != "" {
		repoDir = v
	}
	if t := os.Getenv("VERIF_TIER"); t != "" && *tier == "" {
		*tier = t
	}
	if *replay != "" {
		os.Exit(replayFile(*replay))
	}
	if *specPath == "" {
		fmt.Println("usage: gosym -spec checks/Cxx.json -tier quick")
		os.Exit(2)
	}
	os.Exit(runCheck(*specPath, *tier, *only, *workers, *noNative, *trace))
}

// ---------------------------------------------------------------------------------------------

type loaded struct {
	prog     *ssa.Program
	pkgs     map[string]*ssa.Package // by rel dir
	overlay  map[string][]byte
	buildDir string
}

func harnessFiles(rel string) []string {
	dir := filepath.Join(verifDir, "harness", rel)
	ents, err := os.ReadDir(dir)
	if err != nil {
		return nil
	}
	var out []string
	for _, e := range ents {
		if strings.HasSuffix(e.Name(), ".go") {
			out = append(out, filepath.Join(dir, e.Name()))
		}
	}
	sort.Strings(out)
	return out
}

var pkgClauseRe = regexp.MustCompile(`(?m)^package\s+(\w+)`)

func pkgNameOf(rel string) string {
	// read any non-test go file of the package for its package clause
	ents, _ := os.ReadDir(filepath.Join(repoDir, rel))
	for _, e := range ents {
		if strings.HasSuffix(e.Name(), ".go") && !strings.HasSuffix(e.Name(), "_test.go") {
			data, err := os.ReadFile(filepath.Join(repoDir, rel, e.Name()))
			if err == nil {
				if m := pkgClauseRe.FindSubmatch(data); m != nil {
					return string(m[1])
				}
			}
		}
	}
	return filepath.Base(rel)
}

const replayTestSrc = `//go:build verif_harness

package PKG

import "testing"

func TestVerifReplay(t *testing.T) {
	if vMain() {
		t.Fail()
	}
}
`

func buildOverlay(prop string, rels []string, vfsRel string) (map[string][]byte, string, error) {
	overlay := map[string][]byte{}
	buildDir := filepath.Join(verifDir, "build", prop)
	os.RemoveAll(buildDir)
	if err := os.MkdirAll(buildDir, 0o755); err != nil {
		return nil, "", err
	}
	rt, err := os.ReadFile(filepath.Join(verifDir, "harness", "rt", "zz_verif_rt.go"))
	if err != nil {
		return nil, "", err
	}
	replace := map[string]string{}
	for _, rel := range rels {
		name := pkgNameOf(rel)
		files := harnessFiles(rel)
		if len(files) == 0 {
			return nil, "", fmt.Errorf("no harness files for %s", rel)
		}
		put := func(base string, content []byte, engine bool) {
			virt := filepath.Join(repoDir, rel, base)
			real := filepath.Join(buildDir, strings.ReplaceAll(rel, "/", "__")+"__"+base)
			os.WriteFile(real, content, 0o644)
			replace[virt] = real
			if engine {
				overlay[virt] = content
			}
		}
		put("zz_verif_rt.go", []byte(strings.Replace(string(rt), "package PKG", "package "+name, 1)), true)
		put("zz_verif_replay_test.go", []byte(strings.Replace(replayTestSrc, "package PKG", "package "+name, 1)), false)
		for _, f := range files {
			data, err := os.ReadFile(f)
			if err != nil {
				return nil, "", err
			}
			put(filepath.Base(f), data, true)
		}
		if rel == vfsRel {
			data, err := os.ReadFile(filepath.Join(verifDir, "harness", "shared", "zz_verif_vfs.go"))
			if err != nil {
				return nil, "", err
			}
			put("zz_verif_vfs.go", []byte(strings.Replace(string(data), "package PKG", "package "+name, 1)), true)
		}
	}
	js, _ := json.MarshalIndent(map[string]interface{}{"Replace": replace}, "", " ")
	os.WriteFile(filepath.Join(buildDir, "overlay.json"), js, 0o644)
	return overlay, buildDir, nil
}

func loadProgram(prop string, rels []string, vfsRel string) (*loaded, error) {
	overlay, buildDir, err := buildOverlay(prop, rels, vfsRel)
	if err != nil {
		return nil, err
	}
	var patterns []string
	for _, r := range rels {
		patterns = append(patterns, "./"+r)
	}
	cfg := &packages.Config{
		Mode:       packages.LoadAllSyntax,
		Dir:        repoDir,
		Overlay:    overlay,
		BuildFlags: []string{"-tags=verif_harness"},
		Env:        append(os.Environ(), "GOFLAGS=-mod=mod", "GOPROXY=off", "GOSUMDB=off", "GOTOOLCHAIN=local"),
	}
	initial, err := packages.Load(cfg, patterns...)
	if err != nil {
		return nil, err
	}
	var errs []string
	packages.Visit(initial, nil, func(p *packages.Package) {
		for _, e := range p.Errors {
			errs = append(errs, e.Error())
		}
	})
	if len(errs) > 0 {
		if len(errs) > 10 {
			errs = errs[:10]
		}
		return nil, fmt.Errorf("harness or tree does not type-check:\n  %s", strings.Join(errs, "\n  "))
	}
	prog, pkgs := ssautil.AllPackages(initial, ssa.InstantiateGenerics|ssa.SanityCheckFunctions&0)
	prog.Build()
	l := &loaded{prog: prog, pkgs: map[string]*ssa.Package{}, overlay: overlay, buildDir: buildDir}
	for i, p := range initial {
		rel := strings.TrimPrefix(strings.TrimPrefix(p.PkgPath, modPath), "/")
		l.pkgs[rel] = pkgs[i]
	}
	return l, nil
}

// resolveFunc resolves "rel/pkg.Func" or "(*rel/pkg.T).Method"-less simple names in harness pkgs.
func (l *loaded) resolveHarnessFunc(ref string) *ssa.Function {
	i := strings.LastIndex(ref, ".")
	if i < 0 {
		return nil
	}
	p := l.pkgs[ref[:i]]
	if p == nil {
		return nil
	}
	return p.Func(ref[i+1:])
}

// ---------------------------------------------------------------------------------------------

type sharedQueue struct {
	mu      sync.Mutex
	items   []WorkItem
	idle    int
	busy    int
	workers int
	done    bool
	paths   int64
}

func (q *sharedQueue) donate(items []WorkItem) {
	q.mu.Lock()
	q.items = append(q.items, items...)
	q.mu.Unlock()
}

// takeOrDone hands out a work item (marking the caller busy until it calls release) or reports
// that exploration is finished (queue empty and no busy worker).
func (q *sharedQueue) takeOrDone() (WorkItem, bool, bool) {
	q.mu.Lock()
	defer q.mu.Unlock()
	if n := len(q.items); n > 0 {
		w := q.items[n-1]
		q.items = q.items[:n-1]
		q.busy++
		return w, true, false
	}
	return WorkItem{}, false, q.busy == 0
}

func (q *sharedQueue) release() {
	q.mu.Lock()
	q.busy--
	q.mu.Unlock()
}

func (q *sharedQueue) hungry() bool {
	q.mu.Lock()
	defer q.mu.Unlock()
	return len(q.items) < q.workers
}

type exploreOut struct {
	res     HarnessResult
	stats   []SolverStats
	wall    float64
	witness map[string][]InputRec // reach label -> inputs
}

func mergeLimits(base Limits) Limits {
	if base.MaxPaths == 0 {
		base.MaxPaths = 400000
	}
	if base.MaxSteps == 0 {
		base.MaxSteps = 2000000
	}
	if base.MaxDepth == 0 {
		base.MaxDepth = 400
	}
	if base.QueryMs == 0 {
		base.QueryMs = 5000 // incremental back end; hard queries go to the one-shot portfolio
	}
	if base.MaxConcretize == 0 {
		base.MaxConcretize = 64
	}
	return base
}

func newEngine(id int, l *loaded, cfg *RunCfg, solverKind string, arith bool) (*Engine, error) {
	s, err := NewSolver(solverKind, cfg.Limits.QueryMs)
	if err != nil {
		return nil, err
	}
	e := &Engine{id: id, prog: l.prog, tt: NewTermTable(), solver: s, cfg: cfg,
		globals: map[*ssa.Global]*Value{}, initDone: map[*ssa.Package]bool{}, labelViol: map[string]int{}}
	if arith {
		a, err := NewSolver("cvc5-int", cfg.Limits.QueryMs)
		if err != nil {
			return nil, err
		}
		e.arith = a
	}
	return e, nil
}

func explore(l *loaded, cfg *RunCfg, entry *ssa.Function, name string, workers int, solverKind string, arith bool, trace bool) (*exploreOut, error) {
	t0 := time.Now()
	q := &sharedQueue{workers: workers}
	q.items = []WorkItem{{}}
	out := &exploreOut{witness: map[string][]InputRec{}}
	out.res = HarnessResult{Name: name, Reached: map[string]int{}, Funcs: map[string]bool{}}
	var mu sync.Mutex
	var wg sync.WaitGroup
	var stop int32
	var totalPaths int64
	for w := 0; w < workers; w++ {
		wg.Add(1)
		go func(id int) {
			defer wg.Done()
			e, err := newEngine(id, l, cfg, solverKind, arith)
			if err != nil {
				mu.Lock()
				out.res.Incomplete = appendUniq(out.res.Incomplete, "solver start: "+err.Error())
				mu.Unlock()
				return
			}
			defer e.closeSolvers()
			local := HarnessResult{Name: name, Reached: map[string]int{}, Funcs: map[string]bool{}}
			e.res = &local
			witness := map[string][]InputRec{}
			idleSpins := 0
			for atomic.LoadInt32(&stop) == 0 {
				var item WorkItem
				if n := len(e.pending); n > 0 {
					item = e.pending[n-1]
					e.pending = e.pending[:n-1]
				} else {
					it, ok, done := q.takeOrDone()
					if done {
						break
					}
					if !ok {
						idleSpins++
						time.Sleep(time.Duration(1+idleSpins%5) * time.Millisecond)
						continue
					}
					item = it
				}
				idleSpins = 0
				e.RunPath(entry, item)
				// reachability witnesses: first path reaching a label
				for lbl := range e.path.reached {
					if _, ok := witness[lbl]; !ok {
						m := e.path.model
						if m == nil || !e.modelSatisfiesPC(m) {
							r, mm := e.solver.Check(e.path.pc, nil, e.path.vars)
							if r == Sat {
								m = mm
							} else {
								m = nil
							}
						}
						if m != nil {
							witness[lbl] = e.snapshotInputs(m)
						}
					}
				}
				// share work
				if len(e.pending) > 1 && q.hungry() {
					k := len(e.pending) / 2
					q.donate(e.pending[:k])
					e.pending = append([]WorkItem{}, e.pending[k:]...)
				}
				if len(e.pending) == 0 {
					q.release()
				}
				n := atomic.AddInt64(&totalPaths, 1)
				if n > int64(cfg.Limits.MaxPaths) {
					local.Incomplete = appendUniq(local.Incomplete, fmt.Sprintf("bound: more than %d paths", cfg.Limits.MaxPaths))
					atomic.StoreInt32(&stop, 1)
				}
				if len(local.Incomplete) > 0 && !cfg.keepGoing() {
					atomic.StoreInt32(&stop, 1)
				}
				if trace && n%2000 == 0 {
					fmt.Fprintf(os.Stderr, "  [%s] %d paths, %.0fs\n", name, n, time.Since(t0).Seconds())
				}
			}
			mu.Lock()
			r := &out.res
			r.Paths += local.Paths
			r.Steps += local.Steps
			r.Pruned += local.Pruned
			r.Violations = append(r.Violations, local.Violations...)
			for _, s := range local.Incomplete {
				r.Incomplete = appendUniq(r.Incomplete, s)
			}
			for k, v := range local.Reached {
				r.Reached[k] += v
			}
			r.Discharged += local.Discharged
			r.Obligations += local.Obligations
			for k := range local.Funcs {
				r.Funcs[k] = true
			}
			if local.MaxDepth > r.MaxDepth {
				r.MaxDepth = local.MaxDepth
			}
			for k, v := range witness {
				if _, ok := out.witness[k]; !ok {
					out.witness[k] = v
				}
			}
			st := e.solver.Stats
			if e.arith != nil {
				st.Queries += e.arith.Stats.Queries
				st.Sat += e.arith.Stats.Sat
				st.Unsat += e.arith.Stats.Unsat
				st.Unknown += e.arith.Stats.Unknown
				st.TimeS += e.arith.Stats.TimeS
			}
			out.stats = append(out.stats, st)
			mu.Unlock()
		}(w)
	}
	wg.Wait()
	out.wall = time.Since(t0).Seconds()
	return out, nil
}

func (c *RunCfg) keepGoing() bool { return false }

// runConcrete executes the harness once with fixed inputs (translator validation / engine replay).
type concreteOut struct {
	Status  string
	Failed  []string
	Obs     []string
	Reached []string
	Panic   string
	Err     string
}

func runConcrete(l *loaded, cfg *RunCfg, entry *ssa.Function, name string, inputs []InputRec, solverKind string, eng **Engine) concreteOut {
	if *eng == nil {
		e, err := newEngine(0, l, cfg, solverKind, false)
		if err != nil {
			return concreteOut{Status: "error", Err: err.Error()}
		}
		*eng = e
	}
	e := *eng
	e.cfg = cfg // per-harness replacement table and options
	local := HarnessResult{Name: name, Reached: map[string]int{}, Funcs: map[string]bool{}}
	e.res = &local
	e.labelViol = map[string]int{}
	e.pending = nil
	if inputs == nil {
		inputs = []InputRec{}
	}
	item := WorkItem{}
	// RunPath creates the path; we need replayIn set: wrap
	e.concreteInputs = inputs
	e.RunPath(entry, item)
	e.concreteInputs = nil
	out := concreteOut{Status: "ok"}
	for _, o := range e.path.observes {
		out.Obs = append(out.Obs, o.Tag)
	}
	for l := range e.path.reached {
		out.Reached = append(out.Reached, l)
	}
	sort.Strings(out.Reached)
	if len(local.Incomplete) > 0 {
		out.Status = "error"
		out.Err = strings.Join(local.Incomplete, "; ")
		return out
	}
	if local.Pruned > 0 {
		out.Status = "assume"
	}
	for _, v := range local.Violations {
		if v.Label == "uncaught-panic" {
			out.Status = "panic"
			out.Panic = v.Msg
		} else {
			l := v.Label
			if v.Finding != "" {
				l += "|" + v.Finding
			}
			out.Failed = append(out.Failed, l)
		}
	}
	if len(out.Failed) > 0 && out.Status != "assume" {
		// (a vector that ends in a failed vAssume is outside the harness' precondition, natively
		// too; failures recorded before that point do not count on either side)
		out.Status = "assert"
	}
	if len(e.pending) > 0 {
		out.Status = "error"
		out.Err = "concrete run forked (an input was left symbolic)"
		e.pending = nil
	}
	return out
}

// ---------------------------------------------------------------------------------------------
// native side

type nativeOutcome struct {
	Harness string     `json:"harness"`
	Status  string     `json:"status"`
	Failed  []string   `json:"failed"`
	Panic   string     `json:"panic"`
	Reached []string   `json:"reached"`
	Obs     []string   `json:"obs"`
	Inputs  []InputRec `json:"inputs"`
}

type nativeBin struct {
	path string
	dir  string
	err  error
	out  string
}

func goEnv() []string {
	return append(os.Environ(), "GOFLAGS=-mod=mod", "GOPROXY=off", "GOSUMDB=off", "GOTOOLCHAIN=local")
}

func buildNative(l *loaded, rel string) *nativeBin {
	bin := filepath.Join(l.buildDir, strings.ReplaceAll(rel, "/", "__")+".test")
	cmd := exec.Command("go", "test", "-c", "-tags", "verif_harness", "-vet=off", "-overlay", filepath.Join(l.buildDir, "overlay.json"), "-o", bin, ".")
	cmd.Dir = filepath.Join(repoDir, rel)
	cmd.Env = goEnv()
	out, err := cmd.CombinedOutput()
	return &nativeBin{path: bin, dir: cmd.Dir, err: err, out: string(out)}
}

func (nb *nativeBin) run(env []string, timeout time.Duration) ([]nativeOutcome, string, error) {
	cmd := exec.Command(nb.path, "-test.run", "^TestVerifReplay$", "-test.count=1", "-test.timeout", timeout.String())
	tmp, _ := os.MkdirTemp("", "verif-native-")
	defer os.RemoveAll(tmp)
	cmd.Dir = nb.dir
	cmd.Env = append(append(os.Environ(), env...), "TMPDIR="+tmp)
	out, err := cmd.CombinedOutput()
	var res []nativeOutcome
	for _, line := range strings.Split(string(out), "\n") {
		if strings.HasPrefix(line, "VERIF-OUTCOME ") {
			var o nativeOutcome
			if json.Unmarshal([]byte(line[len("VERIF-OUTCOME "):]), &o) == nil {
				res = append(res, o)
			}
		}
	}
	return res, string(out), err
}

type ReplayFile struct {
	Property string     `json:"property"`
	Spec     string     `json:"spec"`
	Harness  string     `json:"harness"`
	Pkg      string     `json:"pkg"`
	Tier     string     `json:"tier"`
	Label    string     `json:"label"`
	Finding  string     `json:"finding,omitempty"`
	Kind     string     `json:"kind"` // violation | witness
	Msg      string     `json:"msg,omitempty"`
	Inputs   []InputRec `json:"inputs"`
}

func writeReplay(rf *ReplayFile, name string) string {
	dir := filepath.Join(verifDir, "replays")
	os.MkdirAll(dir, 0o755)
	p := filepath.Join(dir, name+".json")
	js, _ := json.MarshalIndent(rf, "", " ")
	os.WriteFile(p, js, 0o644)
	return p
}

func containsStr(l []string, s string) bool {
	for _, x := range l {
		if x == s {
			return true
		}
	}
	return false
}

// ---------------------------------------------------------------------------------------------

func loadFindings() map[string]Finding {
	out := map[string]Finding{}
	data, err := os.ReadFile(filepath.Join(verifDir, "known_findings.json"))
	if err != nil {
		return out
	}
	var fs struct {
		Findings []Finding `json:"findings"`
	}
	if json.Unmarshal(data, &fs) != nil {
		return out
	}
	for _, f := range fs.Findings {
		out[f.ID] = f
	}
	return out
}

func inTier(h HarnessSpec, tier string) bool {
	if len(h.Tiers) == 0 {
		return true
	}
	return containsStr(h.Tiers, tier)
}

func boolOr(p *bool, d bool) bool {
	if p == nil {
		return d
	}
	return *p
}

func runCheck(specPath, tier, only string, workers int, noNative, trace bool) int {
	t0 := time.Now()
	data, err := os.ReadFile(specPath)
	if err != nil {
		fatal2("cannot read spec: %v", err)
	}
	var spec Spec
	if err := json.Unmarshal(data, &spec); err != nil {
		fatal2("bad spec %s: %v", specPath, err)
	}
	seed := int64(1)
	if s := os.Getenv("VERIF_SEED"); s != "" {
		fmt.Sscanf(s, "%d", &seed)
	}
	var onlyRe *regexp.Regexp
	if only != "" {
		onlyRe = regexp.MustCompile(only)
	}
	relSet := map[string]bool{}
	var rels []string
	var hs []HarnessSpec
	for _, h := range spec.Harnesses {
		if !relSet[h.Pkg] {
			relSet[h.Pkg] = true
			rels = append(rels, h.Pkg)
		}
		if !inTier(h, tier) {
			continue
		}
		if onlyRe != nil && !onlyRe.MatchString(h.Name) {
			continue
		}
		hs = append(hs, h)
	}
	if len(hs) == 0 {
		fatal2("no harness selected")
	}
	for _, p := range spec.ExtraPkgs {
		if !relSet[p] {
			relSet[p] = true
			rels = append(rels, p)
		}
	}
	if onlyRe == nil {
		if old, _ := filepath.Glob(filepath.Join(verifDir, "replays", spec.Property+"-*.json")); old != nil {
			for _, f := range old {
				os.Remove(f)
			}
		}
	}
	l, err := loadProgram(spec.Property, rels, spec.Vfs)
	if err != nil {
		fatal2("load: %v", err)
	}
	loadS := time.Since(t0).Seconds()
	lim := spec.Limits
	if tier == "thorough" && spec.LimitsThorough != nil {
		lim = *spec.LimitsThorough
	}
	cfg := &RunCfg{Tier: tier, Limits: mergeLimits(lim), MaxAlloc: spec.MaxAlloc, ClampAlloc: spec.ClampAlloc,
		UnboundedChans: spec.UnboundedChans, MaxViolPerLabel: 2, SkipInit: map[string]bool{}, harnessPkgs: map[string]bool{},
		replFn: map[string]*ssa.Function{}, noReplInside: map[*ssa.Function]bool{}}
	if cfg.MaxAlloc == 0 {
		cfg.MaxAlloc = 4096
	}
	cfg.Fallbacks = []string{"z3-new", "cvc5", "cvc5-int", "cvc5-iand", "z3"}
	cfg.OneShotS = spec.OneShotS
	if cfg.OneShotS == 0 {
		cfg.OneShotS = 60
	}
	cfg.noopPkgs = append(append([]string{}, defaultNoop...), spec.NoopPkgs...)
	for _, s := range spec.SkipInit {
		cfg.SkipInit[s] = true
	}
	for _, r := range rels {
		p := modPath
		if r != "" && r != "." {
			p += "/" + r
		}
		cfg.harnessPkgs[p] = true
	}
	if spec.Vfs != "" {
		if spec.Replace == nil {
			spec.Replace = map[string]string{}
		}
		for from, to := range vfsReplacements {
			if _, ok := spec.Replace[from]; !ok {
				spec.Replace[from] = spec.Vfs + "." + to
			}
		}
	}
	for from, to := range spec.Replace {
		f := l.resolveHarnessFunc(to)
		if f == nil {
			fatal2("replacement target %q not found", to)
		}
		cfg.replFn[from] = f
		cfg.noReplInside[f] = true
	}
	solverKind := spec.Solver
	if solverKind == "" {
		solverKind = "z3"
	}
	findings := loadFindings()

	var outs []hOut
	broken := []string{}
	for _, h := range hs {
		p := l.pkgs[h.Pkg]
		if p == nil {
			fatal2("package %s not loaded", h.Pkg)
		}
		fn := p.Func(h.Name)
		if fn == nil {
			fatal2("harness %s not found in %s (broken harness)", h.Name, h.Pkg)
		}
		hcfg := *cfg
		hcfg.MapOrderAny = h.MapOrderAny
		hcfg.FifoChans = h.FifoChans
		hcfg.ConcretizeBits = h.ConcretizeBits
		if len(h.KeepPkgs) > 0 {
			var np []string
			for _, x := range cfg.noopPkgs {
				keep := false
				for _, k := range h.KeepPkgs {
					if k == x {
						keep = true
					}
				}
				if !keep {
					np = append(np, x)
				}
			}
			hcfg.noopPkgs = np
		}
		if h.MaxConcretize > 0 {
			hcfg.Limits.MaxConcretize = h.MaxConcretize
		}
		if len(h.Replace) > 0 {
			hcfg.replFn = map[string]*ssa.Function{}
			hcfg.noReplInside = map[*ssa.Function]bool{}
			for k, v := range cfg.replFn {
				hcfg.replFn[k] = v
			}
			for k, v := range cfg.noReplInside {
				hcfg.noReplInside[k] = v
			}
			for from, to := range h.Replace {
				f := l.resolveHarnessFunc(to)
				if f == nil {
					fatal2("replacement target %q not found", to)
				}
				hcfg.replFn[from] = f
				hcfg.noReplInside[f] = true
			}
		}
		hsolver := solverKind
		if h.Solver != "" {
			hsolver = h.Solver
		}
		if rp := os.Getenv("VERIF_ENGINE_REPLAY"); rp != "" {
			// debugging aid: run one replay file concretely in the engine and print the outcome
			var rf ReplayFile
			data, _ := os.ReadFile(rp)
			if json.Unmarshal(data, &rf) != nil || rf.Harness != h.Name {
				continue
			}
			var ce *Engine
			co := runConcrete(l, &hcfg, fn, h.Name, rf.Inputs, hsolver, &ce)
			fmt.Printf("engine concrete replay: status=%s failed=%v reached=%v obs=%v err=%s\n", co.Status, co.Failed, co.Reached, co.Obs, co.Err)
			os.Exit(3)
		}
		o, err := explore(l, &hcfg, fn, h.Name, workers, hsolver, h.Arith, trace)
		if err != nil {
			fatal2("explore %s: %v", h.Name, err)
		}
		outs = append(outs, hOut{h, o})
		DumpQStat()
		var q, sat, unsat, unk int
		var st float64
		for _, s := range o.stats {
			q += s.Queries
			sat += s.Sat
			unsat += s.Unsat
			unk += s.Unknown
			st += s.TimeS
		}
		fmt.Printf("harness %-40s paths=%d pruned=%d steps=%d obligations=%d/%d violations=%d queries=%d (sat %d unsat %d unknown %d) solver=%.1fs wall=%.1fs\n",
			h.Name, o.res.Paths, o.res.Pruned, o.res.Steps, o.res.Discharged, o.res.Obligations, len(o.res.Violations), q, sat, unsat, unk, st, o.wall)
		for _, inc := range o.res.Incomplete {
			fmt.Printf("  INCOMPLETE %s: %s\n", h.Name, inc)
			broken = append(broken, h.Name+": "+inc)
		}
		if len(o.res.Reached) == 0 && len(o.res.Incomplete) == 0 {
			fmt.Printf("  VACUOUS %s: no path reached a vReach label\n", h.Name)
			broken = append(broken, h.Name+": vacuous (no vReach reached)")
		}
	}

	// ---- native: build test binaries once per package
	bins := map[string]*nativeBin{}
	needNative := false
	for _, ho := range outs {
		if boolOr(ho.spec.Native, true) {
			needNative = true
		}
	}
	if needNative && !noNative {
		var wg sync.WaitGroup
		var mu sync.Mutex
		for _, rel := range rels {
			use := false
			for _, ho := range outs {
				if ho.spec.Pkg == rel && boolOr(ho.spec.Native, true) {
					use = true
				}
			}
			if !use {
				continue
			}
			wg.Add(1)
			go func(rel string) {
				defer wg.Done()
				nb := buildNative(l, rel)
				mu.Lock()
				bins[rel] = nb
				mu.Unlock()
			}(rel)
		}
		wg.Wait()
		for rel, nb := range bins {
			if nb.err != nil {
				fatal2("native build of %s failed: %v\n%s", rel, nb.err, nb.out)
			}
		}
	}

	violations := 0
	knownLines := []string{}
	violLines := []string{}
	tracesValidated := 0
	samples := []interface{}{}
	var concEng *Engine

	for _, ho := range outs {
		h, o := ho.spec, ho.out
		native := boolOr(h.Native, true) && !noNative
		fn := l.pkgs[h.Pkg].Func(h.Name)
		hcfg := *cfg
		hcfg.MapOrderAny = false
		hcfg.FifoChans = h.FifoChans
		hcfg.ConcretizeBits = h.ConcretizeBits
		if len(h.KeepPkgs) > 0 {
			var np []string
			for _, x := range cfg.noopPkgs {
				keep := false
				for _, k := range h.KeepPkgs {
					if k == x {
						keep = true
					}
				}
				if !keep {
					np = append(np, x)
				}
			}
			hcfg.noopPkgs = np
		}
		if h.MaxConcretize > 0 {
			hcfg.Limits.MaxConcretize = h.MaxConcretize
		}
		if len(h.Replace) > 0 {
			hcfg.replFn = map[string]*ssa.Function{}
			hcfg.noReplInside = map[*ssa.Function]bool{}
			for k, v := range cfg.replFn {
				hcfg.replFn[k] = v
			}
			for k, v := range cfg.noReplInside {
				hcfg.noReplInside[k] = v
			}
			for from, to := range h.Replace {
				f := l.resolveHarnessFunc(to)
				if f == nil {
					fatal2("replacement target %q not found", to)
				}
				hcfg.replFn[from] = f
				hcfg.noReplInside[f] = true
			}
		}
		// --- violations: group by label|finding, confirm first witness of each
		// (up to 6 candidates per key are tried; an unconfirmed candidate is kept next to the
		// replay for inspection and makes the check broken only if no candidate confirms)
		tried := map[string]int{}
		done := map[string]bool{}
		var pendingBroken = map[string]string{}
		for _, v := range o.res.Violations {
			key := v.Label + "|" + v.Finding
			if done[key] || tried[key] >= 6 {
				continue
			}
			tried[key]++
			rf := &ReplayFile{Property: spec.Property, Spec: specPath, Harness: h.Name, Pkg: h.Pkg, Tier: tier, Label: v.Label, Finding: v.Finding, Kind: "violation", Msg: v.Msg, Inputs: v.Inputs}
			rname := fmt.Sprintf("%s-%s-%s", spec.Property, h.Name, sanitize(key))
			if tried[key] > 1 {
				rname += fmt.Sprintf("-cand%d", tried[key])
			}
			rp := writeReplay(rf, rname)
			confirmed := false
			how := ""
			want := v.Label
			if v.Finding != "" {
				want += "|" + v.Finding
			}
			if native {
				res, raw, _ := bins[h.Pkg].run([]string{"VERIF_REPLAY=" + rp}, 120*time.Second)
				if len(res) == 1 {
					if v.Label == "uncaught-panic" {
						confirmed = res[0].Status == "panic"
					} else {
						confirmed = containsStr(res[0].Failed, want)
					}
					how = "native replay: status=" + res[0].Status + " failed=" + strings.Join(res[0].Failed, ",") + " panic=" + res[0].Panic
				} else if strings.Contains(raw, "fatal error:") {
					// the native process died with an unrecoverable runtime error (e.g. out of memory)
					confirmed = true
					i := strings.Index(raw, "fatal error:")
					how = "native replay crashed the process: " + strings.SplitN(raw[i:], "\n", 2)[0]
				} else {
					how = "native replay produced no outcome: " + tail(raw, 600)
				}
			} else {
				co := runConcrete(l, &hcfg, fn, h.Name, v.Inputs, solverKind, &concEng)
				if v.Label == "uncaught-panic" {
					confirmed = co.Status == "panic"
				} else {
					confirmed = containsStr(co.Failed, want)
				}
				how = "engine concrete replay (environment exists only as model): status=" + co.Status + " " + co.Err
			}
			if !confirmed {
				fmt.Printf("  UNCONFIRMED counterexample %s label=%s replay=%s: %s\n", h.Name, key, rp, how)
				if _, ok := pendingBroken[key]; !ok {
					pendingBroken[key] = fmt.Sprintf("%s: unconfirmed counterexample for %s (%s)", h.Name, key, how)
				}
				continue
			}
			done[key] = true
			delete(pendingBroken, key)
			tracesValidated++
			f, listed := findings[v.Finding]
			if v.Finding != "" && listed && f.Status == "known" && f.Property == spec.Property {
				knownLines = append(knownLines, fmt.Sprintf("KNOWN-FINDING: property=%s %s: %s [replay=%s; %s]", spec.Property, f.ID, f.Description, rp, how))
			} else {
				violations++
				violLines = append(violLines, fmt.Sprintf("VIOLATION property=%s replay=%s", spec.Property, rp))
				fmt.Printf("  violation detail: harness=%s label=%s msg=%s pos=%s; %s\n", h.Name, v.Label, v.Msg, v.Pos, how)
			}
			samples = append(samples, map[string]interface{}{"kind": "counterexample", "harness": h.Name, "label": v.Label, "finding": v.Finding, "inputs": compactInputs(v.Inputs)})
		}
		for _, msg := range pendingBroken {
			broken = append(broken, msg)
		}
		// --- reachability witnesses (the "twin"): native run must reach the label
		labels := make([]string, 0, len(o.witness))
		for k := range o.witness {
			labels = append(labels, k)
		}
		sort.Strings(labels)
		for _, lbl := range labels {
			in := o.witness[lbl]
			rf := &ReplayFile{Property: spec.Property, Spec: specPath, Harness: h.Name, Pkg: h.Pkg, Tier: tier, Label: lbl, Kind: "witness", Inputs: in}
			rp := writeReplay(rf, fmt.Sprintf("%s-%s-witness-%s", spec.Property, h.Name, sanitize(lbl)))
			if len(samples) < 12 {
				samples = append(samples, map[string]interface{}{"kind": "reachability-witness", "harness": h.Name, "label": lbl, "inputs": compactInputs(in)})
			}
			if native {
				res, raw, _ := bins[h.Pkg].run([]string{"VERIF_REPLAY=" + rp}, 120*time.Second)
				if len(res) == 1 && containsStr(res[0].Reached, lbl) {
					tracesValidated++
				} else if len(res) == 1 && (res[0].Status == "assert" || res[0].Status == "panic") && len(o.res.Violations) > 0 {
					// witness path happens to be a violating one; fine
					tracesValidated++
				} else {
					st := "no outcome: " + tail(raw, 400)
					if len(res) == 1 {
						st = "status=" + res[0].Status + " panic=" + res[0].Panic + " reached=" + strings.Join(res[0].Reached, ",")
					}
					fmt.Printf("  WITNESS-MISMATCH %s label=%s: native run did not reach it (%s)\n", h.Name, lbl, st)
					broken = append(broken, fmt.Sprintf("%s: witness for %s does not replay natively (%s)", h.Name, lbl, st))
				}
			}
		}
		// --- translator validation on random concrete vectors
		if native && boolOr(h.Validate, true) {
			n := spec.ValidateN
			if n == 0 {
				n = 12
			}
			if tier == "thorough" {
				n *= 4
			}
			res, raw, _ := bins[h.Pkg].run([]string{fmt.Sprintf("VERIF_RANDOM=%d:%d:%s", seed, n, h.Name), "VERIF_TIER=" + tier}, 300*time.Second)
			if len(res) == 0 {
				broken = append(broken, fmt.Sprintf("%s: translator validation produced no native outcomes: %s", h.Name, tail(raw, 400)))
			}
			for _, no := range res {
				co := runConcrete(l, &hcfg, fn, h.Name, no.Inputs, solverKind, &concEng)
				if co.Status == "error" && strings.Contains(co.Err, "ran out of inputs") && no.Status == "panic" {
					continue
				}
				ok := co.Status == no.Status && strings.Join(co.Obs, ";") == strings.Join(no.Obs, ";")
				if ok && co.Status == "assert" {
					a, b := append([]string{}, co.Failed...), append([]string{}, no.Failed...)
					sort.Strings(a)
					sort.Strings(b)
					ok = strings.Join(dedupe(a), ";") == strings.Join(dedupe(b), ";")
				}
				if !ok {
					js, _ := json.Marshal(no.Inputs)
					fmt.Printf("  ENCODER-MISMATCH %s: native status=%s failed=%v obs=%v panic=%q | engine status=%s failed=%v obs=%v err=%s panic=%q\n    inputs=%s\n", h.Name, no.Status, no.Failed, no.Obs, no.Panic, co.Status, co.Failed, co.Obs, co.Err, co.Panic, js)
					broken = append(broken, h.Name+": encoder mismatch on a random concrete vector")
					break
				}
				tracesValidated++
			}
		}
	}
	if concEng != nil {
		concEng.solver.Close()
	}

	// ---- evidence
	wall := time.Since(t0).Seconds()
	writeEvidence(&spec, tier, seed, outs, tracesValidated, samples, violations, knownLines, broken, wall, loadS, workers, solverKind)
	for _, l := range knownLines {
		fmt.Println(l)
	}
	for _, l := range violLines {
		fmt.Println(l)
	}
	os.RemoveAll(l.buildDir)
	if len(broken) > 0 {
		for _, b := range broken {
			fmt.Printf("BROKEN-CHECK: %s\n", b)
		}
		if violations > 0 {
			return 1
		}
		return 2
	}
	if violations > 0 {
		return 1
	}
	fmt.Printf("PASS property=%s tier=%s harnesses=%d wall=%.1fs\n", spec.Property, tier, len(outs), wall)
	return 0
}

type hOut struct {
	spec HarnessSpec
	out  *exploreOut
}

func dedupe(a []string) []string {
	var out []string
	for i, s := range a {
		if i == 0 || s != a[i-1] {
			out = append(out, s)
		}
	}
	return out
}

func tail(s string, n int) string {
	if len(s) > n {
		return "..." + s[len(s)-n:]
	}
	return s
}

var sanRe = regexp.MustCompile(`[^A-Za-z0-9_.-]+`)

func sanitize(s string) string { return strings.Trim(sanRe.ReplaceAllString(s, "_"), "_") }

func compactInputs(in []InputRec) []string {
	var out []string
	for _, r := range in {
		switch r.Kind {
		case "len", "choice":
			out = append(out, fmt.Sprintf("%s=%d", r.Tag, r.N))
		case "bytes", "str":
			bs := make([]byte, len(r.Vals))
			for i, v := range r.Vals {
				bs[i] = byte(v)
			}
			out = append(out, fmt.Sprintf("%s=%q", r.Tag, string(bs)))
		case "i64", "i32":
			if len(r.Vals) > 0 {
				out = append(out, fmt.Sprintf("%s=%d", r.Tag, int64(r.Vals[0])))
			}
		default:
			if len(r.Vals) > 0 {
				out = append(out, fmt.Sprintf("%s=%d", r.Tag, r.Vals[0]))
			}
		}
		if len(out) > 40 {
			out = append(out, "...")
			break
		}
	}
	return out
}

func replayFile(path string) int {
	if abs, err := filepath.Abs(path); err == nil {
		path = abs
	}
	data, err := os.ReadFile(path)
	if err != nil {
		fmt.Println("cannot read replay:", err)
		return 2
	}
	var rf ReplayFile
	if err := json.Unmarshal(data, &rf); err != nil {
		fmt.Println("bad replay file:", err)
		return 2
	}
	l := &loaded{}
	var rels []string
	vfsRel := ""
	sdata, err := os.ReadFile(rf.Spec)
	if err == nil {
		var spec Spec
		json.Unmarshal(sdata, &spec)
		vfsRel = spec.Vfs
		seen := map[string]bool{}
		for _, h := range spec.Harnesses {
			if !seen[h.Pkg] {
				seen[h.Pkg] = true
				rels = append(rels, h.Pkg)
			}
		}
	} else {
		rels = []string{rf.Pkg}
	}
	_, buildDir, err := buildOverlay(rf.Property+"-replay", rels, vfsRel)
	if err != nil {
		fmt.Println("overlay:", err)
		return 2
	}
	l.buildDir = buildDir
	defer os.RemoveAll(buildDir)
	nb := buildNative(l, rf.Pkg)
	if nb.err != nil {
		fmt.Println("native build failed:", nb.err, nb.out)
		return 2
	}
	res, raw, _ := nb.run([]string{"VERIF_REPLAY=" + path}, 120*time.Second)
	if len(res) != 1 {
		fmt.Println("no outcome:", tail(raw, 1000))
		return 2
	}
	js, _ := json.MarshalIndent(res[0], "", " ")
	fmt.Println(string(js))
	want := rf.Label
	if rf.Finding != "" {
		want += "|" + rf.Finding
	}
	if (rf.Label == "uncaught-panic" && res[0].Status == "panic") || containsStr(res[0].Failed, want) {
		fmt.Printf("REPRODUCED label=%s\n", rf.Label)
		return 1
	}
	if res[0].Status == "assert" || res[0].Status == "panic" {
		fmt.Printf("OTHER-FAILURE (not label=%s): status=%s failed=%v\n", rf.Label, res[0].Status, res[0].Failed)
		return 1
	}
	return 0
}
