//go:build verif_harness

package tsm1

// C02-K4: the cache part of a read is last-write-wins too. Cache.Values merges the snapshot being
// flushed (or retained after a failed flush) with the hot store; for a timestamp present in
// both, the hot (newer) value is the one returned, and nothing is lost or duplicated.

func init() {
	vRegister("VerifHarness_C02_CacheValuesLastWriteWins", VerifHarness_C02_CacheValuesLastWriteWins)
}

func VerifHarness_C02_CacheValuesLastWriteWins() {
	c := NewCache(1 << 30)
	key := []byte("cpu#!~#v")
	// 1..2 points written before the snapshot, 0..2 after it; timestamps symbolic (may coincide)
	older := vC02Points("snapshotted", 1, 2)
	for _, p := range older {
		vAssume(c.Write(key, []Value{NewIntegerValue(p.t, p.v)}) == nil)
	}
	snap, err := c.Snapshot()
	vAssume(err == nil && snap != nil)
	if vBool("flushFailedAndRetained") {
		c.ClearSnapshot(false) // the snapshot stays part of the cache until a retry succeeds
	}
	newer := vC02Points("hot", 0, 2)
	for _, p := range newer {
		vAssume(c.Write(key, []Value{NewIntegerValue(p.t, p.v)}) == nil)
	}
	got := vC02FromGeneric(c.Values(key))
	vC02AssertAscending(got, "C02.cache-values-sorted-and-deduplicated")
	// reference: writes in acknowledgement order, the last write of a timestamp wins
	all := append(append([]vC02P{}, older...), newer...)
	for i, p := range all {
		newest := p.v
		for _, q := range all[i+1:] {
			newest = vIte64(q.t == p.t, q.v, newest)
		}
		vAssert(vC02Has(got, p.t, newest), "C02.cache-read-returns-the-last-write")
	}
	for _, g := range got {
		vAssert(vC02HasTime(all, g.t), "C02.cache-read-invents-nothing")
	}
	vObserve("n", len(got))
	vReach("C02.cachevalues.end")
}
