//go:build verif_harness

package tsm1

// C09: the compaction merge for one key (tsmBatchKeyIterator.mergeInteger / combineInteger /
// chunkInteger with tsdb.IntegerArray.Merge/Exclude/Include) against a reference last-write-wins
// merge in file (generation) order.

import (
	"errors"
	"math"

	"github.com/influxdata/influxdb/tsdb"
)

func init() {
	vRegister("VerifHarness_C09_MergeBlocks", VerifHarness_C09_MergeBlocks)
}

// engine-side table model of the integer block codec (its fidelity is C13's claim): a block is
// the one-byte id of its decoded form.
var vC09Tab []*tsdb.IntegerArray

func vC09Encode(a *tsdb.IntegerArray, b []byte) ([]byte, error) {
	if a.Len() == 0 {
		return nil, nil
	}
	cp := &tsdb.IntegerArray{Timestamps: append([]int64(nil), a.Timestamps...), Values: append([]int64(nil), a.Values...)}
	vC09Tab = append(vC09Tab, cp)
	return []byte{byte(len(vC09Tab) - 1)}, nil
}

func vC09Decode(block []byte, a *tsdb.IntegerArray) error {
	if len(block) != 1 || int(block[0]) >= len(vC09Tab) {
		return errors.New("corrupt block")
	}
	src := vC09Tab[block[0]]
	a.Timestamps = append(a.Timestamps[:0], src.Timestamps...)
	a.Values = append(a.Values[:0], src.Values...)
	return nil
}

func vC09BlockCount(block []byte) (int, error) {
	if len(block) != 1 || int(block[0]) >= len(vC09Tab) {
		return 0, errors.New("corrupt block")
	}
	return vC09Tab[block[0]].Len(), nil
}

type vC09Pt struct {
	t, v int64
}

func VerifHarness_C09_MergeBlocks() {
	vC09Tab = nil
	maxFiles := 2
	if vThorough() {
		maxFiles = 3
	}
	nFiles := vLen("files", 1, maxFiles)
	k := &tsmBatchKeyIterator{size: vLen("pointsPerBlock", 1, 3), fast: vBool("fast"), key: []byte("cpu#!~#v"), typ: BlockInteger,
		mergedIntegerValues: &tsdb.IntegerArray{}, mergedFloatValues: &tsdb.FloatArray{}, mergedUnsignedValues: &tsdb.UnsignedArray{},
		mergedBooleanValues: &tsdb.BooleanArray{}, mergedStringValues: &tsdb.StringArray{}, interrupt: make(chan struct{})}
	var all [][]vC09Pt // per input block, in file order
	next := int64(100)
	for f := 0; f < nFiles; f++ {
		maxB := 2
		if nFiles == 3 {
			maxB = 1 // three files (thorough): one block each
		}
		nBlocks := vLen("blocksInFile", 1, maxB)
		var prevMax int64
		for b := 0; b < nBlocks; b++ {
			n := vLen("pointsInBlock", 1, 2)
			arr := &tsdb.IntegerArray{}
			var pts []vC09Pt
			for i := 0; i < n; i++ {
				t := vInt64("t")
				// inside a file: blocks sorted and disjoint, points strictly ascending
				if i > 0 || b > 0 {
					vAssume(t > prevMax)
				}
				prevMax = t
				next++
				arr.Timestamps = append(arr.Timestamps, t)
				arr.Values = append(arr.Values, next) // provenance tag
				pts = append(pts, vC09Pt{t, next})
			}
			// the real encoder delta-codes its input in place: take the time range first
			minT, maxT := arr.Timestamps[0], arr.Timestamps[n-1]
			enc, err := EncodeIntegerArrayBlock(arr, nil)
			vAssume(err == nil)
			k.blocks = append(k.blocks, &block{key: k.key, typ: BlockInteger, minTime: minT, maxTime: maxT,
				b: enc, readMin: math.MaxInt64, readMax: math.MinInt64})
			all = append(all, pts)
		}
	}
	// drain exactly like the compactor does
	var out []vC09Pt
	rounds := 0
	for k.Next() {
		rounds++
		if rounds > 24 {
			break
		}
		_, minT, maxT, b, err := k.Read()
		vAssert(err == nil, "C09.merge-no-error")
		if err != nil || b == nil {
			break
		}
		var dec tsdb.IntegerArray
		vAssert(DecodeIntegerArrayBlock(b, &dec) == nil, "C09.output-block-decodes")
		vAssert(dec.Len() > 0, "C09.output-block-non-empty")
		if dec.Len() == 0 {
			break
		}
		vAssert(minT == dec.Timestamps[0] && maxT == dec.Timestamps[dec.Len()-1], "C09.output-block-time-range-matches-content")
		for i := range dec.Timestamps {
			out = append(out, vC09Pt{dec.Timestamps[i], dec.Values[i]})
		}
	}
	vAssert(rounds <= 24, "C09.merge-terminates")
	// output: strictly ascending across blocks (sorted, non-overlapping, deduplicated)
	for i := 1; i < len(out); i++ {
		vAssert(out[i-1].t < out[i].t, "C09.output-sorted-and-non-overlapping")
	}
	// every input point is represented by the newest write for its timestamp
	for bi := range all {
		for _, p := range all[bi] {
			newest := p.v
			for bj := bi + 1; bj < len(all); bj++ {
				for _, q := range all[bj] {
					newest = vIte64(q.t == p.t, q.v, newest)
				}
			}
			found := false
			for _, o := range out {
				found = vOr(found, vAnd(o.t == p.t, o.v == newest))
			}
			vAssert(found, "C09.compaction-keeps-latest-value-per-timestamp")
		}
	}
	for _, o := range out {
		known := false
		for bi := range all {
			for _, p := range all[bi] {
				known = vOr(known, p.t == o.t)
			}
		}
		vAssert(known, "C09.compaction-invents-nothing")
	}
	vObserve("outPoints", len(out))
	vReach("C09.merge.end")
}
