//go:build verif_harness

package tsm1

// C13: block codecs round-trip bit for bit.

import (
	"math"
)

func init() {
	vRegister("VerifHarness_C13_IntegerBatch", VerifHarness_C13_IntegerBatch)
	vRegister("VerifHarness_C13_IntegerIter", VerifHarness_C13_IntegerIter)
	vRegister("VerifHarness_C13_IntegerCross", VerifHarness_C13_IntegerCross)
	vRegister("VerifHarness_C13_ZigZag", VerifHarness_C13_ZigZag)
	vRegister("VerifHarness_C13_Boolean", VerifHarness_C13_Boolean)
	vRegister("VerifHarness_C13_String", VerifHarness_C13_String)
	vRegister("VerifHarness_C13_Float", VerifHarness_C13_Float)
	vRegister("VerifHarness_C13_FloatPair", VerifHarness_C13_FloatPair)
	vRegister("VerifHarness_C13_FloatTriple", VerifHarness_C13_FloatTriple)
	vRegister("VerifHarness_C13_UnsignedBatch", VerifHarness_C13_UnsignedBatch)
	vRegister("VerifHarness_C13_Timestamps", VerifHarness_C13_Timestamps)
}

func vC13Ints(maxQuick, maxThorough int) []int64 {
	max := maxQuick
	if vThorough() {
		max = maxThorough
	}
	n := vLen("n", 1, max)
	vals := make([]int64, n)
	for i := range vals {
		vals[i] = vInt64("v")
	}
	return vals
}

func VerifHarness_C13_ZigZag() {
	x := vInt64("x")
	vAssert(ZigZagDecode(ZigZagEncode(x)) == x, "C13.zigzag-roundtrip")
	u := vUint64("u")
	vAssert(ZigZagEncode(ZigZagDecode(u)) == u, "C13.zigzag-roundtrip-inverse")
	vObserve("zz", ZigZagEncode(x))
	vReach("C13.zigzag.end")
}

// IntegerArrayEncodeAll / IntegerArrayDecodeAll: every sequence of 1..4 int64 values (RLE,
// simple8b and uncompressed schemes are chosen by the encoder according to the deltas).
func VerifHarness_C13_IntegerBatch() {
	vals := vC13Ints(3, 4)
	src := append([]int64(nil), vals...)
	b, err := IntegerArrayEncodeAll(src, nil)
	vAssert(err == nil, "C13.int-batch-encode-ok")
	if err != nil {
		return
	}
	vObserve("scheme", b[0]>>4)
	got, err := IntegerArrayDecodeAll(b, nil)
	vAssert(err == nil, "C13.int-batch-decode-ok")
	vAssert(len(got) == len(vals), "C13.int-batch-count")
	for i := 0; i < len(vals) && i < len(got); i++ {
		vAssert(got[i] == vals[i], "C13.int-batch-roundtrip")
	}
	vReach("C13.int-batch.end")
}

func VerifHarness_C13_UnsignedBatch() {
	n := vLen("n", 1, 3)
	vals := make([]uint64, n)
	for i := range vals {
		vals[i] = vUint64("v")
	}
	src := append([]uint64(nil), vals...)
	b, err := UnsignedArrayEncodeAll(src, nil)
	vAssert(err == nil, "C13.uint-batch-encode-ok")
	if err != nil {
		return
	}
	got, err := UnsignedArrayDecodeAll(b, nil)
	vAssert(err == nil, "C13.uint-batch-decode-ok")
	vAssert(len(got) == len(vals), "C13.uint-batch-count")
	for i := 0; i < len(vals) && i < len(got); i++ {
		vAssert(got[i] == vals[i], "C13.uint-batch-roundtrip")
	}
	vReach("C13.uint-batch.end")
}

// Iterator pair IntegerEncoder / IntegerDecoder.
func VerifHarness_C13_IntegerIter() {
	vals := vC13Ints(3, 4)
	enc := NewIntegerEncoder(len(vals))
	for _, v := range vals {
		enc.Write(v)
	}
	b, err := enc.Bytes()
	vAssert(err == nil, "C13.int-iter-encode-ok")
	if err != nil {
		return
	}
	vObserve("scheme", b[0]>>4)
	var dec IntegerDecoder
	dec.SetBytes(b)
	i := 0
	for dec.Next() {
		if i < len(vals) {
			vAssert(dec.Read() == vals[i], "C13.int-iter-roundtrip")
		}
		i++
		if i > len(vals)+1 {
			break
		}
	}
	vAssert(dec.Error() == nil, "C13.int-iter-decode-ok")
	vAssert(i == len(vals), "C13.int-iter-count")
	vReach("C13.int-iter.end")
}

// Blocks written by the iterator encoder are read by the batch decoder (compaction reads what
// the cache snapshot wrote) and vice versa.
func VerifHarness_C13_IntegerCross() {
	vals := vC13Ints(2, 3)
	enc := NewIntegerEncoder(len(vals))
	for _, v := range vals {
		enc.Write(v)
	}
	b, err := enc.Bytes()
	vAssume(err == nil)
	got, err := IntegerArrayDecodeAll(b, nil)
	vAssert(err == nil, "C13.int-cross-decode-ok")
	vAssert(len(got) == len(vals), "C13.int-cross-count")
	for i := 0; i < len(vals) && i < len(got); i++ {
		vAssert(got[i] == vals[i], "C13.int-cross-iter-to-batch")
	}

	src := append([]int64(nil), vals...)
	b2, err := IntegerArrayEncodeAll(src, nil)
	vAssume(err == nil)
	var dec IntegerDecoder
	dec.SetBytes(b2)
	i := 0
	for dec.Next() {
		if i < len(vals) {
			vAssert(dec.Read() == vals[i], "C13.int-cross-batch-to-iter")
		}
		i++
		if i > len(vals)+1 {
			break
		}
	}
	vAssert(dec.Error() == nil, "C13.int-cross-batch-to-iter-ok")
	vAssert(i == len(vals), "C13.int-cross-batch-to-iter-count")
	vReach("C13.int-cross.end")
}

// Timestamps: delta + divisor (10^k) scaling + RLE / simple8b / raw framing, iterator encoder and
// both decoders. Strictly increasing timestamps (what the cache hands to the encoder).
func VerifHarness_C13_Timestamps() {
	n := vLen("n", 1, 4)
	ts := make([]int64, n)
	// consecutive timestamps at most 2^32 ns (~4.3 s) apart above an arbitrary base: the divisor
	// search takes delta % 10^k and the packed form delta / 10^k, which only cvc5's integer mode
	// decides, and only for bounded deltas
	base := vRange("base", -(1 << 62), 1<<62)
	for i := range ts {
		if i == 0 {
			ts[i] = base
		} else {
			d := int64(vUint32("delta"))
			if n > 3 {
				d >>= 16 // four timestamps (thorough): gaps below 2^16 ns
			}
			vAssume(d >= 1)
			ts[i] = ts[i-1] + d
		}
	}
	enc := NewTimeEncoder(n)
	for _, t := range ts {
		enc.Write(t)
	}
	b, err := enc.Bytes()
	vAssert(err == nil, "C13.time-encode-ok")
	if err != nil {
		return
	}
	vObserve("scheme", b[0]>>4)
	var dec TimeDecoder
	dec.Init(b)
	i := 0
	for dec.Next() {
		if i < n {
			vAssert(dec.Read() == ts[i], "C13.time-iter-roundtrip")
		}
		i++
		if i > n+1 {
			break
		}
	}
	vAssert(dec.Error() == nil, "C13.time-iter-ok")
	vAssert(i == n, "C13.time-iter-count")
	got, err := TimeArrayDecodeAll(b, nil)
	vAssert(err == nil, "C13.time-batch-ok")
	vAssert(len(got) == n, "C13.time-batch-count")
	for j := 0; j < n && j < len(got); j++ {
		vAssert(got[j] == ts[j], "C13.time-batch-roundtrip")
	}
	// the batch encoder (compaction writes blocks with it) against both decoders
	b2, err := TimeArrayEncodeAll(append([]int64(nil), ts...), nil)
	vAssert(err == nil, "C13.time-batch-encode-ok")
	if err != nil {
		return
	}
	got2, err := TimeArrayDecodeAll(b2, nil)
	vAssert(err == nil, "C13.time-batch-encoder-decodes")
	vAssert(len(got2) == n, "C13.time-batch-encoder-count")
	for j := 0; j < n && j < len(got2); j++ {
		vAssert(got2[j] == ts[j], "C13.time-batch-encoder-roundtrip")
	}
	var dec2 TimeDecoder
	dec2.Init(b2)
	k := 0
	for dec2.Next() {
		if k < n {
			vAssert(dec2.Read() == ts[k], "C13.time-batch-encoder-to-iterator-roundtrip")
		}
		k++
		if k > n+1 {
			break
		}
	}
	vAssert(dec2.Error() == nil && k == n, "C13.time-batch-encoder-to-iterator-count")
	vReach("C13.time.end")
}

func VerifHarness_C13_Boolean() {
	max := 10
	if vThorough() {
		max = 17
	}
	n := vLen("n", 1, max)
	vals := make([]bool, n)
	for i := range vals {
		vals[i] = vBool("b")
	}
	enc := NewBooleanEncoder(n)
	for _, v := range vals {
		enc.Write(v)
	}
	b, err := enc.Bytes()
	vAssert(err == nil, "C13.bool-encode-ok")
	if err != nil {
		return
	}
	var dec BooleanDecoder
	dec.SetBytes(b)
	i := 0
	for dec.Next() {
		if i < n {
			vAssert(dec.Read() == vals[i], "C13.bool-iter-roundtrip")
		}
		i++
		if i > n+1 {
			break
		}
	}
	vAssert(dec.Error() == nil, "C13.bool-iter-ok")
	vAssert(i == n, "C13.bool-iter-count")
	got, err := BooleanArrayDecodeAll(b, nil)
	vAssert(err == nil, "C13.bool-batch-ok")
	vAssert(len(got) == n, "C13.bool-batch-count")
	for j := 0; j < n && j < len(got); j++ {
		vAssert(got[j] == vals[j], "C13.bool-batch-roundtrip")
	}
	b2, err := BooleanArrayEncodeAll(vals, nil)
	vAssert(err == nil, "C13.bool-batch-encode-ok")
	vAssert(len(b2) == len(b), "C13.bool-batch-and-iter-encoders-agree")
	for j := 0; j < len(b) && j < len(b2); j++ {
		vAssert(b[j] == b2[j], "C13.bool-batch-and-iter-encoders-agree")
	}
	vReach("C13.bool.end")
}

func VerifHarness_C13_String() {
	n := vLen("n", 1, 3)
	vals := make([]string, n)
	for i := range vals {
		vals[i] = vString("s", vLen("slen", 0, 2))
	}
	enc := NewStringEncoder(8)
	for _, v := range vals {
		enc.Write(v)
	}
	b, err := enc.Bytes()
	vAssert(err == nil, "C13.string-encode-ok")
	if err != nil {
		return
	}
	var dec StringDecoder
	vAssert(dec.SetBytes(b) == nil, "C13.string-setbytes-ok")
	i := 0
	for dec.Next() {
		if i < n {
			vAssert(dec.Read() == vals[i], "C13.string-iter-roundtrip")
		}
		i++
		if i > n+1 {
			break
		}
	}
	vAssert(dec.Error() == nil, "C13.string-iter-ok")
	vAssert(i == n, "C13.string-iter-count")
	got, err := StringArrayDecodeAll(b, nil)
	vAssert(err == nil, "C13.string-batch-ok")
	vAssert(len(got) == n, "C13.string-batch-count")
	for j := 0; j < n && j < len(got); j++ {
		vAssert(got[j] == vals[j], "C13.string-batch-roundtrip")
	}
	vReach("C13.string.end")
}

// Floats are compared as bit patterns. NaN is the encoder's end-of-stream marker and is rejected.
//
// The encoder's control flow depends on the leading/trailing zero counts of the XOR of consecutive
// values (and of the last value with the NaN end marker); the engine forks over those counts
// (concretize_bits), everything else about the values stays symbolic.
func VerifHarness_C13_Float() {
	// one arbitrary value: every (leading, trailing) class of its XOR with the end marker
	v := vFloat64("f")
	vAssume(!math.IsNaN(v))
	vC13FloatRoundTrip([]float64{v})
	vReach("C13.float.end")
}

var vC13NaNBits = math.Float64bits(math.NaN())

// vC13XorClass returns an arbitrary 64-bit pattern with exactly l leading zeros and a number of
// trailing zeros given by tmode: 0 none, 1 the maximum (a single bit set), 2 five (or the
// maximum, if smaller), 3 any (the engine forks over the count).
func vC13XorClass(tag string, l, tmode int) uint64 {
	top := uint64(1) << uint(63-l)
	free := vUint64(tag+"Bits") & (top - 1)
	switch tmode {
	case 0:
		return top | free | 1
	case 1:
		return top
	case 2:
		if 63-l <= 5 {
			return top
		}
		return top | (free &^ 63) | 32
	}
	return top | free
}

// Two values: the XOR of the pair takes every leading-zero count 0..63 with no, five or the
// maximal number of trailing zeros (thorough: any number); the second value's XOR with the end
// marker has 0 or 12 leading zeros (thorough: also 32) and no trailing zeros.
func VerifHarness_C13_FloatPair() {
	endClasses := []int{0, 12}
	tmodes := 3
	if vThorough() {
		endClasses = []int{0, 12, 32}
		tmodes = 4
	}
	le := endClasses[vChoice("endMarkerLeadingZeros", len(endClasses))]
	b1 := vC13NaNBits ^ vC13XorClass("end", le, 0)
	l := vLen("xorLeadingZeros", 0, 63)
	b0 := b1 ^ vC13XorClass("xor", l, vChoice("xorTrailing", tmodes))
	v0, v1 := math.Float64frombits(b0), math.Float64frombits(b1)
	vAssume(!math.IsNaN(v0) && !math.IsNaN(v1))
	vC13FloatRoundTrip([]float64{v0, v1})
	vReach("C13.float-pair.end")
}

// Three values (thorough): the second delta is encoded either inside the first delta's
// leading/trailing window or with a new window.
func VerifHarness_C13_FloatTriple() {
	ls := []int{0, 11, 12, 31, 32, 33, 52, 63}
	b2 := vC13NaNBits ^ vC13XorClass("end", 0, 0)
	b1 := b2 ^ vC13XorClass("xor2", ls[vChoice("xor2LeadingZeros", len(ls))], vChoice("xor2Trailing", 3))
	b0 := b1 ^ vC13XorClass("xor1", ls[vChoice("xor1LeadingZeros", len(ls))], vChoice("xor1Trailing", 3))
	v0, v1, v2 := math.Float64frombits(b0), math.Float64frombits(b1), math.Float64frombits(b2)
	vAssume(!math.IsNaN(v0) && !math.IsNaN(v1) && !math.IsNaN(v2))
	vC13FloatRoundTrip([]float64{v0, v1, v2})
	vReach("C13.float-triple.end")
}

func vC13FloatRoundTrip(vals []float64) {
	n := len(vals)
	bits := make([]uint64, n)
	for i := range vals {
		bits[i] = math.Float64bits(vals[i])
	}
	enc := NewFloatEncoder()
	for _, v := range vals {
		enc.Write(v)
	}
	enc.Flush()
	b, err := enc.Bytes()
	vAssert(err == nil, "C13.float-encode-ok")
	if err != nil {
		return
	}
	var dec FloatDecoder
	vAssert(dec.SetBytes(b) == nil, "C13.float-setbytes-ok")
	i := 0
	for dec.Next() {
		if i < n {
			vAssert(math.Float64bits(dec.Values()) == bits[i], "C13.float-iter-roundtrip")
		}
		i++
		if i > n+1 {
			break
		}
	}
	vAssert(dec.Error() == nil, "C13.float-iter-ok")
	vAssert(i == n, "C13.float-iter-count")
	got, err := FloatArrayDecodeAll(b, nil)
	vAssert(err == nil, "C13.float-batch-ok")
	vAssert(len(got) == n, "C13.float-batch-count")
	for j := 0; j < n && j < len(got); j++ {
		vAssert(math.Float64bits(got[j]) == bits[j], "C13.float-batch-roundtrip")
	}
}
