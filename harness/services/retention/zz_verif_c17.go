//go:build verif_harness

package retention

// C17: one tick of the retention enforcement loop against the statement, with every error outcome
// of the metadata and store calls and group ages straddling the expiry instant.

import (
	"errors"
	"time"

	"github.com/influxdata/influxdb/services/meta"
	"github.com/influxdata/influxdb/toml"
)

func init() {
	vRegister("VerifHarness_C17_Tick", VerifHarness_C17_Tick)
}

type vC17Meta struct {
	dbs        []meta.DatabaseInfo
	svc        *Service
	ticks      int
	sgDeletes  map[uint64]int  // group id -> DeleteShardGroup calls
	sgDeleted  map[uint64]bool // succeeded
	sgArgsOK   bool
	pruneCalls int
}

func (m *vC17Meta) Databases() []meta.DatabaseInfo {
	m.ticks++
	vAssume(m.ticks == 1) // exactly one tick is examined
	return m.dbs
}

func (m *vC17Meta) DeleteShardGroup(database, policy string, id uint64) error {
	m.sgDeletes[id]++
	// the (database, policy) pair must be the one owning the group
	ok := false
	for _, d := range m.dbs {
		for _, r := range d.RetentionPolicies {
			for _, g := range r.ShardGroups {
				if g.ID == id && d.Name == database && r.Name == policy {
					ok = true
				}
			}
		}
	}
	if !ok {
		m.sgArgsOK = false
	}
	if vBool("deleteShardGroupFails") {
		return errors.New("meta: not leader")
	}
	m.sgDeleted[id] = true
	return nil
}

func (m *vC17Meta) PruneShardGroups() error {
	m.pruneCalls++
	close(m.svc.done) // end the loop after this tick
	if vBool("pruneFails") {
		return errors.New("meta: not leader")
	}
	return nil
}

type vC17Store struct {
	ids     []uint64
	deletes map[uint64]int
}

func (s *vC17Store) ShardIDs() []uint64 { return s.ids }
func (s *vC17Store) DeleteShard(id uint64) error {
	s.deletes[id]++
	if vBool("deleteShardFails") {
		return errors.New("store: shard busy")
	}
	return nil
}

func VerifHarness_C17_Tick() {
	base := time.Now()
	nRP := vLen("policies", 1, 2)
	var rps []meta.RetentionPolicyInfo
	type ginfo struct {
		id, shard uint64
		preDel    bool
		dur       time.Duration
		end       time.Time
	}
	var groups []ginfo
	next := uint64(0)
	for r := 0; r < nRP; r++ {
		dur := time.Duration(0)
		if vBool("finiteRetention") {
			dur = time.Duration(vRange("retention", int64(time.Hour), int64(400*24*time.Hour)))
		}
		rp := meta.RetentionPolicyInfo{Name: string(rune('p' + r)), ReplicaN: 1, Duration: dur, ShardGroupDuration: time.Hour}
		maxG := 1
		if vThorough() && r == 0 {
			maxG = 2 // thorough: the first policy may hold two groups
		}
		nG := vLen("groups", 0, maxG)
		for g := 0; g < nG; g++ {
			next++
			// the group's end lies `age` before/after the expiry instant base-dur
			age := vRange("expiredFor", -int64(48*time.Hour), int64(48*time.Hour))
			end := base.Add(-dur).Add(-time.Duration(age))
			sg := meta.ShardGroupInfo{ID: next, StartTime: end.Add(-time.Hour), EndTime: end,
				Shards: []meta.ShardInfo{{ID: next, Owners: []meta.ShardOwner{{NodeID: 1}}}}}
			// a truncated group still holds points up to its end time: truncation only stops new
			// writes at or after TruncatedAt, so expiry is governed by EndTime all the same
			if vBool("truncated") {
				sg.TruncatedAt = end.Add(-time.Duration(vRange("truncatedBeforeEnd", 1, int64(time.Hour))))
			}
			pre := vBool("alreadyDeleted")
			if pre {
				sg.DeletedAt = base.Add(-time.Minute)
			}
			rp.ShardGroups = append(rp.ShardGroups, sg)
			groups = append(groups, ginfo{id: next, shard: next, preDel: pre, dur: dur, end: end})
		}
		rps = append(rps, rp)
	}
	s := NewService(Config{Enabled: true, CheckInterval: toml.Duration(30 * time.Millisecond)})
	mc := &vC17Meta{dbs: []meta.DatabaseInfo{{Name: "db", RetentionPolicies: rps}}, svc: s, sgDeletes: map[uint64]int{}, sgDeleted: map[uint64]bool{}, sgArgsOK: true}
	st := &vC17Store{deletes: map[uint64]int{}}
	// local shards: any subset of the known shard ids plus one id unknown to the metadata
	for _, g := range groups {
		if vBool("shardIsLocal") {
			st.ids = append(st.ids, g.shard)
		}
	}
	st.ids = append(st.ids, 99)
	s.MetaClient = mc
	s.TSDBStore = st
	s.done = make(chan struct{})

	s.run()

	after := time.Now()
	vAssume(after.Sub(base) < 2*time.Second)
	vAssert(mc.ticks == 1 && mc.pruneCalls == 1, "C17.one-tick-prunes-once")
	vAssert(mc.sgArgsOK, "C17.delete-shard-group-names-the-owning-policy")
	vAssert(st.deletes[99] == 0, "C17.unknown-local-shard-never-deleted")
	for _, g := range groups {
		calls := mc.sgDeletes[g.id]
		surelyExpired := g.dur != 0 && g.end.Add(g.dur).Before(base)
		maybeExpired := g.dur != 0 && g.end.Add(g.dur).Before(after)
		if g.preDel {
			vAssert(calls == 0, "C17.already-deleted-group-not-deleted-again")
		} else {
			if surelyExpired {
				vAssert(calls == 1, "C17.expired-group-marked-deleted-exactly-once")
			}
			if !maybeExpired {
				vAssert(calls == 0, "C17.unexpired-group-never-deleted")
			}
			if g.dur == 0 {
				vAssert(calls == 0, "C17.infinite-policy-never-expires")
			}
			vAssert(calls <= 1, "C17.expired-group-marked-deleted-exactly-once")
		}
		local := false
		for _, id := range st.ids {
			if id == g.shard {
				local = true
			}
		}
		goneInMeta := g.preDel || mc.sgDeleted[g.id]
		if st.deletes[g.shard] > 0 {
			vAssert(local, "C17.only-local-shards-deleted")
			vAssert(goneInMeta, "C17.shard-deleted-only-if-group-deleted-or-expired")
			vAssert(st.deletes[g.shard] == 1, "C17.shard-deleted-once-per-tick")
		}
		if local && goneInMeta {
			vAssert(st.deletes[g.shard] == 1, "C17.local-shard-of-deleted-group-is-removed")
		}
	}
	vObserve("groups", len(groups))
	vReach("C17.tick.end")
}
