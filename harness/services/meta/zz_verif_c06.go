//go:build verif_harness

package meta

// C06: one inductive step of a metadata mutator from an arbitrary state satisfying the metadata
// invariant; determinism under map-iteration order.

import (
	"time"

	"github.com/influxdata/influxdb/models"
)

func init() {
	vRegister("VerifHarness_C06_CreateShardGroup", VerifHarness_C06_CreateShardGroup)
	vRegister("VerifHarness_C06_DeleteDataNode", VerifHarness_C06_DeleteDataNode)
	vRegister("VerifHarness_C06_ShardOps", VerifHarness_C06_ShardOps)
	vRegister("VerifHarness_C06_Nodes", VerifHarness_C06_Nodes)
	vRegister("VerifHarness_C06_Truncate", VerifHarness_C06_Truncate)
}

var vC06Win int

// vC06Time: symbolic timestamp inside one window of three shard-group durations (see C08).
func vC06Time(tag string, d time.Duration) int64 {
	w := 3 * int64(d)
	switch vC06Win {
	case 0:
		return vRange(tag, -w, w)
	case 1:
		return vRange(tag, models.MinNanoTime, models.MinNanoTime+w)
	}
	return vRange(tag, models.MaxNanoTime-w, models.MaxNanoTime)
}

func vC06End(g *ShardGroupInfo) time.Time {
	if g.Truncated() {
		return g.TruncatedAt
	}
	return g.EndTime
}

// vC06AssumeGroupInv: the shard-group part of the metadata invariant as a precondition.
func vC06AssumeGroupInv(gs []ShardGroupInfo) {
	for i := range gs {
		vAssume(gs[i].StartTime.Before(gs[i].EndTime))
		if gs[i].Truncated() {
			vAssume(!gs[i].TruncatedAt.Before(gs[i].StartTime) && !gs[i].TruncatedAt.After(gs[i].EndTime))
		}
	}
	for i := 0; i+1 < len(gs); i++ {
		vAssume(!ShardGroupInfos(gs).Less(i+1, i))
	}
	for i := range gs {
		for j := 0; j < i; j++ {
			if gs[i].Deleted() || gs[j].Deleted() {
				continue
			}
			vAssume(!(gs[j].StartTime.Before(vC06End(&gs[i])) && gs[i].StartTime.Before(vC06End(&gs[j]))))
		}
	}
}

// vC06AssertGroupInv: the same invariant as obligations (one assertion per conjunct: no forks).
func vC06AssertGroupInv(gs []ShardGroupInfo) {
	for i := range gs {
		vAssert(gs[i].StartTime.Before(gs[i].EndTime), "C06.group-range-nonempty")
	}
	for i := 0; i+1 < len(gs); i++ {
		vAssert(!ShardGroupInfos(gs).Less(i+1, i), "C06.groups-sorted")
	}
	for i := range gs {
		for j := 0; j < i; j++ {
			if gs[i].Deleted() || gs[j].Deleted() {
				continue
			}
			vAssert(!(gs[j].StartTime.Before(vC06End(&gs[i])) && gs[i].StartTime.Before(vC06End(&gs[j]))), "C06.live-groups-disjoint")
		}
	}
}

func vC06Groups(n int, d time.Duration, data *Data, ownersFrom int) []ShardGroupInfo {
	var gs []ShardGroupInfo
	for g := 0; g < n; g++ {
		start := vC06Time("sgStart", d)
		end := vC06Time("sgEnd", d)
		data.MaxShardGroupID++
		sg := ShardGroupInfo{ID: data.MaxShardGroupID, StartTime: time.Unix(0, start), EndTime: time.Unix(0, end)}
		switch vChoice("sgState", 3) {
		case 1:
			sg.TruncatedAt = time.Unix(0, vC06Time("sgTruncatedAt", d))
		case 2:
			sg.DeletedAt = time.Unix(0, 1)
		}
		for s := 0; s < 2; s++ {
			data.MaxShardID++
			sg.Shards = append(sg.Shards, ShardInfo{ID: data.MaxShardID, Owners: []ShardOwner{{NodeID: uint64(1 + (s+g)%ownersFrom)}}})
		}
		gs = append(gs, sg)
	}
	vC06AssumeGroupInv(gs)
	return gs
}

// CreateShardGroup from an arbitrary valid state: invariant preserved, ids fresh, owners correct.
func VerifHarness_C06_CreateShardGroup() {
	// two variants keep the product of concrete choices small: "ranges" quantifies over existing
	// groups and timestamps with 2 nodes / replication 1; "owners" over node count, replication
	// factor and raft index with no existing group.
	ranges := vBool("variantRanges")
	vC06Win = 0
	durations := []time.Duration{time.Hour, 168 * time.Hour}
	dur := durations[0]
	nNodes, replicaN := 2, 1
	if ranges {
		vC06Win = vChoice("timeWindow", 3)
		dur = durations[vChoice("shardGroupDuration", len(durations))]
	} else {
		nNodes = vLen("dataNodes", 1, 3)
		replicaN = vLen("replicaN", 0, 3)
	}
	data := &Data{Index: vUint64("raftIndex")}
	for i := 1; i <= nNodes; i++ {
		data.DataNodes = append(data.DataNodes, NodeInfo{ID: uint64(i)})
	}
	data.MaxNodeID = uint64(nNodes)
	maxG := 1
	if vThorough() {
		maxG = 2
	}
	if !ranges {
		maxG = 0
	}
	gs := vC06Groups(vLen("groups", 0, maxG), dur, data, nNodes)
	rp := RetentionPolicyInfo{Name: "rp", ReplicaN: replicaN, ShardGroupDuration: dur, ShardGroups: gs}
	data.Databases = []DatabaseInfo{{Name: "db", DefaultRetentionPolicy: "rp", RetentionPolicies: []RetentionPolicyInfo{rp}}}
	oldMaxSG, oldMaxSh, oldN := data.MaxShardGroupID, data.MaxShardID, len(gs)
	ts := time.Unix(0, vC06Time("timestamp", dur))
	pre, _ := data.RetentionPolicy("db", "rp")
	existed := pre.ShardGroupByTimestamp(ts) != nil

	err := data.CreateShardGroup("db", "rp", ts)
	vAssert(err == nil, "C06.create-shard-group-ok")
	rpi, _ := data.RetentionPolicy("db", "rp")
	vC06AssertGroupInv(rpi.ShardGroups)
	if existed {
		vAssert(len(rpi.ShardGroups) == oldN && data.MaxShardGroupID == oldMaxSG && data.MaxShardID == oldMaxSh, "C06.existing-group-means-no-change")
		vReach("C06.createsg.existing")
		return
	}
	vAssert(len(rpi.ShardGroups) == oldN+1, "C06.one-group-created")
	sg := rpi.ShardGroupByTimestamp(ts)
	vAssert(sg != nil, "C06.new-group-covers-timestamp")
	if sg == nil {
		return
	}
	vAssert(sg.ID > oldMaxSG && sg.ID == data.MaxShardGroupID, "C06.group-id-fresh")
	want := replicaN
	if want == 0 {
		want = 1
	}
	if want > nNodes {
		want = nNodes
	}
	load := make([]int, nNodes+1)
	for i, sh := range sg.Shards {
		vAssert(sh.ID > oldMaxSh && sh.ID <= data.MaxShardID, "C06.shard-id-fresh")
		for j := 0; j < i; j++ {
			vAssert(sg.Shards[j].ID != sh.ID, "C06.shard-ids-unique")
		}
		vAssert(len(sh.Owners) == want, "C06.owners-per-shard-is-min-replication-nodes")
		for a, o := range sh.Owners {
			vAssert(data.DataNode(o.NodeID) != nil, "C06.owner-is-existing-data-node")
			for b := 0; b < a; b++ {
				vAssert(sh.Owners[b].NodeID != o.NodeID, "C06.owners-distinct")
			}
			if o.NodeID >= 1 && int(o.NodeID) <= nNodes {
				load[o.NodeID]++
			}
		}
	}
	for a := 1; a <= nNodes; a++ {
		for b := 1; b <= nNodes; b++ {
			vAssert(load[a]-load[b] <= 1, "C06.owners-spread-evenly")
		}
	}
	vReach("C06.createsg.created")
}

func vC06SameOwners(a, b *Data) bool {
	if len(a.Databases) != len(b.Databases) {
		return false
	}
	for di := range a.Databases {
		ra, rb := a.Databases[di].RetentionPolicies, b.Databases[di].RetentionPolicies
		if len(ra) != len(rb) {
			return false
		}
		for ri := range ra {
			ga, gb := ra[ri].ShardGroups, rb[ri].ShardGroups
			if len(ga) != len(gb) {
				return false
			}
			for gi := range ga {
				if len(ga[gi].Shards) != len(gb[gi].Shards) || ga[gi].Deleted() != gb[gi].Deleted() {
					return false
				}
				for si := range ga[gi].Shards {
					oa, ob := ga[gi].Shards[si].Owners, gb[gi].Shards[si].Owners
					if len(oa) != len(ob) {
						return false
					}
					for k := range oa {
						if oa[k].NodeID != ob[k].NodeID {
							return false
						}
					}
				}
			}
		}
	}
	return true
}

// DeleteDataNode: no shard stays owned by the removed node, owners stay existing distinct nodes,
// and the result does not depend on map iteration order (replicas apply the same command).
func VerifHarness_C06_DeleteDataNode() {
	nNodes := 3
	build := func(owners [][]uint64) *Data {
		d := &Data{}
		for i := 1; i <= nNodes; i++ {
			d.DataNodes = append(d.DataNodes, NodeInfo{ID: uint64(i)})
		}
		d.MaxNodeID = uint64(nNodes)
		sg := ShardGroupInfo{ID: 1, StartTime: time.Unix(0, 0), EndTime: time.Unix(0, 3600e9)}
		for i, os := range owners {
			sh := ShardInfo{ID: uint64(i + 1)}
			for _, o := range os {
				sh.Owners = append(sh.Owners, ShardOwner{NodeID: o})
			}
			sg.Shards = append(sg.Shards, sh)
		}
		d.MaxShardGroupID, d.MaxShardID = 1, uint64(len(owners))
		d.Databases = []DatabaseInfo{{Name: "db", RetentionPolicies: []RetentionPolicyInfo{{Name: "rp", ReplicaN: 1, ShardGroupDuration: time.Hour, ShardGroups: []ShardGroupInfo{sg}}}}}
		return d
	}
	nShards := vLen("shards", 1, 3)
	owners := make([][]uint64, nShards)
	for i := range owners {
		// owner sets: {1},{2},{3},{1,2},{1,3},{2,3}
		switch vChoice("ownerSet", 6) {
		case 0:
			owners[i] = []uint64{1}
		case 1:
			owners[i] = []uint64{2}
		case 2:
			owners[i] = []uint64{3}
		case 3:
			owners[i] = []uint64{1, 2}
		case 4:
			owners[i] = []uint64{1, 3}
		default:
			owners[i] = []uint64{2, 3}
		}
	}
	victim := uint64(vLen("removedNode", 1, 3))
	first := build(owners)
	err := first.DeleteDataNode(victim)
	vAssert(err == nil, "C06.delete-data-node-ok")
	if err != nil {
		return
	}
	vAssert(first.DataNode(victim) == nil, "C06.node-removed")
	for _, sg := range first.Databases[0].RetentionPolicies[0].ShardGroups {
		for _, sh := range sg.Shards {
			for a, o := range sh.Owners {
				vAssert(o.NodeID != victim, "C06.no-shard-owned-by-removed-node")
				if !sg.Deleted() {
					vAssert(first.DataNode(o.NodeID) != nil, "C06.owner-is-existing-data-node")
				}
				for b := 0; b < a; b++ {
					vAssert(sh.Owners[b].NodeID != o.NodeID, "C06.owners-distinct")
				}
			}
		}
	}
	// determinism: the same command on the same state gives the same state. The engine explores
	// every map iteration order of both runs; natively Go's randomised order is sampled.
	reps := 1
	if !vSymbolic() {
		reps = 400
	}
	same := true
	for r := 0; r < reps; r++ {
		other := build(owners)
		if other.DeleteDataNode(victim) != nil || !vC06SameOwners(first, other) {
			same = false
		}
	}
	// known finding C06-F1: newShardOwner breaks ties between equally loaded nodes by map order
	vAssertKF(same, "C06.delete-data-node-deterministic", true, "C06-F1")
	vReach("C06.deletenode.end")
}

// DropShard / CopyShardOwner / RemoveShardOwner / DeleteShardGroup keep ids unique, owners
// distinct and sorted insertion, and never touch other shards.
func VerifHarness_C06_ShardOps() {
	d := &Data{}
	for i := 1; i <= 3; i++ {
		d.DataNodes = append(d.DataNodes, NodeInfo{ID: uint64(i)})
	}
	sg := ShardGroupInfo{ID: 1, StartTime: time.Unix(0, 0), EndTime: time.Unix(0, 3600e9)}
	nShards := vLen("shards", 1, 2)
	for i := 0; i < nShards; i++ {
		sh := ShardInfo{ID: uint64(i + 1)}
		// owner lists as the mutators leave them: ascending, or wrapped around by the round-robin
		// assignment of CreateShardGroup / appended by DeleteDataNode's reassignment
		switch vChoice("ownerSet", 7) {
		case 0:
			sh.Owners = []ShardOwner{{NodeID: 1}}
		case 1:
			sh.Owners = []ShardOwner{{NodeID: 3}}
		case 2:
			sh.Owners = []ShardOwner{{NodeID: 1}, {NodeID: 3}}
		case 4:
			sh.Owners = []ShardOwner{{NodeID: 3}, {NodeID: 1}}
		case 5:
			sh.Owners = []ShardOwner{{NodeID: 2}, {NodeID: 3}, {NodeID: 1}}
		case 6:
			sh.Owners = []ShardOwner{{NodeID: 3}, {NodeID: 2}}
		default:
			sh.Owners = []ShardOwner{{NodeID: 1}, {NodeID: 2}, {NodeID: 3}}
		}
		sg.Shards = append(sg.Shards, sh)
	}
	d.MaxShardGroupID, d.MaxShardID = 1, uint64(nShards)
	d.Databases = []DatabaseInfo{{Name: "db", RetentionPolicies: []RetentionPolicyInfo{{Name: "rp", ReplicaN: 1, ShardGroupDuration: time.Hour, ShardGroups: []ShardGroupInfo{sg}}}}}
	before := d.Clone()
	shardID := uint64(vLen("shardID", 1, 3)) // 3: unknown shard
	nodeID := uint64(vLen("nodeID", 1, 3))
	op := vChoice("op", 3)
	switch op {
	case 0:
		d.DropShard(shardID)
	case 1:
		d.CopyShardOwner(shardID, nodeID)
	case 2:
		d.RemoveShardOwner(shardID, nodeID)
	}
	g := &d.Databases[0].RetentionPolicies[0].ShardGroups[0]
	g0 := &before.Databases[0].RetentionPolicies[0].ShardGroups[0]
	for _, sh0 := range g0.Shards {
		var sh *ShardInfo
		for i := range g.Shards {
			if g.Shards[i].ID == sh0.ID {
				vAssert(sh == nil, "C06.shard-ids-unique")
				sh = &g.Shards[i]
			}
		}
		had := false
		for _, o := range sh0.Owners {
			if o.NodeID == nodeID {
				had = true
			}
		}
		if sh0.ID != shardID {
			vAssert(sh != nil && len(sh.Owners) == len(sh0.Owners), "C06.other-shards-untouched")
			continue
		}
		switch op {
		case 0:
			vAssert(sh == nil, "C06.dropped-shard-gone")
		case 1:
			want := len(sh0.Owners)
			if !had {
				want++
			}
			vAssert(sh != nil && len(sh.Owners) == want, "C06.copy-owner-adds-exactly-one")
		case 2:
			want := len(sh0.Owners)
			if had {
				want--
			}
			if want == 0 {
				vAssert(sh == nil, "C06.unowned-shard-removed")
			} else {
				vAssert(sh != nil && len(sh.Owners) == want, "C06.remove-owner-removes-exactly-one")
			}
		}
		if sh != nil {
			for a := range sh.Owners {
				for b := 0; b < a; b++ {
					vAssert(sh.Owners[b].NodeID != sh.Owners[a].NodeID, "C06.owners-distinct")
				}
				if op == 2 {
					vAssert(sh.Owners[a].NodeID != nodeID, "C06.removed-owner-gone")
				}
			}
			if op == 1 {
				has := false
				for _, o := range sh.Owners {
					if o.NodeID == nodeID {
						has = true
					}
				}
				vAssert(has, "C06.copied-owner-present")
				// every previous owner is still an owner
				for _, o0 := range sh0.Owners {
					still := false
					for _, o := range sh.Owners {
						if o.NodeID == o0.NodeID {
							still = true
						}
					}
					vAssert(still, "C06.copy-owner-keeps-existing-owners")
				}
			}
		}
	}
	vAssert(len(g.Shards) > 0 || g.Deleted(), "C06.empty-group-marked-deleted")
	vReach("C06.shardops.end")
}

// Node creation: ids unique, never reused, data nodes stay sorted.
func VerifHarness_C06_Nodes() {
	d := &Data{}
	addrs := []string{"a:1", "b:1", "c:1"}
	steps := vLen("steps", 1, 4)
	var issued []uint64
	for s := 0; s < steps; s++ {
		addr := addrs[vChoice("addr", len(addrs))]
		maxBefore := d.MaxNodeID
		switch vChoice("op", 4) {
		case 0:
			if d.CreateDataNode(addr, addr) == nil {
				vAssert(d.MaxNodeID >= maxBefore, "C06.node-id-counter-monotone")
			}
		case 1:
			d.CreateMetaNode(addr, addr)
		case 2:
			if len(d.DataNodes) > 0 {
				d.DeleteDataNode(d.DataNodes[0].ID)
			}
		case 3:
			if len(d.MetaNodes) > 0 {
				d.DeleteMetaNode(d.MetaNodes[0].ID)
			}
		}
		vAssert(d.MaxNodeID >= maxBefore, "C06.node-id-counter-monotone")
		if d.MaxNodeID > maxBefore {
			issued = append(issued, d.MaxNodeID)
		}
		for i := range d.DataNodes {
			vAssert(d.DataNodes[i].ID <= d.MaxNodeID && d.DataNodes[i].ID > 0, "C06.node-id-within-counter")
			for j := 0; j < i; j++ {
				vAssert(d.DataNodes[j].ID < d.DataNodes[i].ID, "C06.data-nodes-sorted-unique")
				vAssert(d.DataNodes[j].TCPAddr != d.DataNodes[i].TCPAddr, "C06.data-node-addresses-unique")
			}
		}
		for i := range d.MetaNodes {
			vAssert(d.MetaNodes[i].ID <= d.MaxNodeID && d.MetaNodes[i].ID > 0, "C06.node-id-within-counter")
			for j := 0; j < i; j++ {
				vAssert(d.MetaNodes[j].ID != d.MetaNodes[i].ID, "C06.meta-node-ids-unique")
			}
		}
	}
	for i := range issued {
		for j := 0; j < i; j++ {
			vAssert(issued[i] != issued[j], "C06.node-ids-never-reused")
		}
	}
	vObserve("maxNodeID", d.MaxNodeID)
	vReach("C06.nodes.end")
}

// TruncateShardGroups keeps the invariant and only ever shortens live groups.
func VerifHarness_C06_Truncate() {
	vC06Win = 0
	dur := time.Hour
	data := &Data{DataNodes: []NodeInfo{{ID: 1}}, MaxNodeID: 1}
	gs := vC06Groups(vLen("groups", 1, 2), dur, data, 1)
	data.Databases = []DatabaseInfo{{Name: "db", RetentionPolicies: []RetentionPolicyInfo{{Name: "rp", ReplicaN: 1, ShardGroupDuration: dur, ShardGroups: gs}}}}
	before := data.Clone()
	t := time.Unix(0, vC06Time("truncateAt", dur))
	data.TruncateShardGroups(t)
	after := data.Databases[0].RetentionPolicies[0].ShardGroups
	old := before.Databases[0].RetentionPolicies[0].ShardGroups
	vAssert(len(after) == len(old), "C06.truncate-keeps-groups")
	for i := range after {
		if i >= len(old) {
			break
		}
		vAssert(after[i].ID == old[i].ID && after[i].StartTime.Equal(old[i].StartTime) && after[i].EndTime.Equal(old[i].EndTime), "C06.truncate-keeps-ranges")
		vAssert(!vC06End(&after[i]).After(vC06End(&old[i])), "C06.truncate-only-shortens")
		if !after[i].Deleted() && after[i].EndTime.After(t) {
			vAssert(after[i].Truncated() && !vC06End(&after[i]).After(t) || !after[i].StartTime.Before(t), "C06.no-live-group-accepts-writes-after-truncation-time")
		}
		if after[i].Truncated() {
			vAssert(!after[i].TruncatedAt.Before(after[i].StartTime) && !after[i].TruncatedAt.After(after[i].EndTime), "C06.truncation-inside-group")
		}
	}
	// disjointness survives (sortedness by truncated end may legitimately change: not asserted)
	for i := range after {
		for j := 0; j < i; j++ {
			if after[i].Deleted() || after[j].Deleted() {
				continue
			}
			vAssert(!(after[j].StartTime.Before(vC06End(&after[i])) && after[i].StartTime.Before(vC06End(&after[j]))), "C06.live-groups-disjoint")
		}
	}
	vReach("C06.truncate.end")
}
