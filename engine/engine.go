package main

// Path-level machinery: decisions (re-execution DFS), path condition, feasibility with model
// caching, assumptions, assertions, concretisation, the undo journal.

import (
	"fmt"
	"go/token"
	"go/types"
	"os"
	"runtime/debug"
	"sort"
	"strings"
	"sync"
	"time"

	"golang.org/x/tools/go/ssa"
)

type Decision struct {
	N    int    // number of alternatives (2 for branches)
	Pick int    // chosen alternative
	Val  uint64 // payload (concretised value)
}

type WorkItem struct {
	Prefix []Decision
	Model  map[string]uint64 // witness of the prefix' path condition (may be nil)
}

type InputRec struct {
	Kind string  `json:"k"`
	Tag  string  `json:"t"`
	N    int     `json:"n,omitempty"` // concrete choice / length
	terms []*Term
	Vals []uint64 `json:"v,omitempty"`
}

type ObsRec struct {
	Tag  string
	Term *Term
}

type Violation struct {
	Harness   string
	Label     string
	Finding   string // known-finding id if inside an exclusion, else ""
	Msg       string
	Inputs    []InputRec
	Decisions []Decision
	Pos       string
}

type undo struct {
	cell *Value
	old  Value
	fn   func()
}

// signals
type pathEnd struct{ why string }
type unsupportedErr struct{ msg string }
type boundErr struct{ msg string }
type targetPanic struct {
	v   Value
	msg string
	pos string
}

type PathState struct {
	prefix    []Decision
	decisions []Decision
	pc        []*Term
	pcSet     map[*Term]bool
	model     map[string]uint64
	vars      []*Term
	inputs    []InputRec
	observes  []ObsRec
	steps     int
	fresh     map[string]int
	reached   map[string]bool
	depth     int
	goDepth   int
	replayIn  []InputRec // concrete mode: inputs to feed
	replayPos int
	lastNow   *Term
	bigLen    map[*Value]*Term
	dom       map[*Term]*byteSet
	tainted   map[*Term]bool
	taintSeen map[*Term]bool
	synthNow  uint64
	syncMaps  map[*Value]*Map
	timeCodec map[*Term]*timeCodecEntry
}

func newPathState() *PathState {
	return &PathState{pcSet: map[*Term]bool{}, fresh: map[string]int{}, reached: map[string]bool{},
		dom: map[*Term]*byteSet{}, tainted: map[*Term]bool{}, taintSeen: map[*Term]bool{}}
}

type HarnessResult struct {
	Name        string
	Paths       int
	Steps       int64
	Pruned      int // paths ended by vAssume
	Violations  []*Violation
	Incomplete  []string // reasons (unsupported, bound, unknown)
	Reached     map[string]int
	Discharged  int
	Obligations int
	Funcs       map[string]bool
	Samples     []string
	MaxDepth    int
}

type Limits struct {
	MaxPaths     int   `json:"max_paths"`
	MaxSteps     int   `json:"max_steps"`
	MaxDepth     int   `json:"max_depth"`
	QueryMs      int   `json:"query_ms"`
	MaxConcretize int  `json:"max_concretize"`
}

type Engine struct {
	id      int
	prog    *ssa.Program
	tt      *TermTable
	solver  *Solver
	arith   *Solver // optional cvc5-int for arith-class assertions
	cfg     *RunCfg
	globals map[*ssa.Global]*Value
	initDone map[*ssa.Package]bool
	inInit  int
	journal []undo
	journalOn bool
	path    *PathState
	res     *HarnessResult
	pending []WorkItem // local DFS stack
	labelViol map[string]int
	curFrame *frame
	typeCache map[string]bool
	concreteInputs []InputRec
	fallbacks map[string]*Solver
	methodCache map[methodKey]*ssa.Function
	implCache   map[implKey]bool
}

type methodKey struct {
	t types.Type
	m *types.Func
}

type implKey struct {
	t types.Type
	i *types.Interface
}

func (e *Engine) closeSolvers() {
	e.solver.Close()
	e.arith.Close()
	for _, s := range e.fallbacks {
		s.Close()
	}
}

func (e *Engine) unsupported(msg string) unsupportedErr {
	return unsupportedErr{msg + e.where()}
}

func (e *Engine) where() string {
	fr := e.curFrame
	if fr == nil {
		return ""
	}
	s := " in " + fr.fn.String()
	if fr.pos.IsValid() {
		s += " at " + e.prog.Fset.Position(fr.pos).String()
	}
	// a few callers, to locate stubs that are missing
	n := 0
	for c := fr.caller; c != nil && n < 5; c = c.caller {
		s += " <- " + shortFn(c.fn.String())
		n++
	}
	return s
}

func (e *Engine) posString(p token.Pos) string {
	if !p.IsValid() {
		return ""
	}
	ps := e.prog.Fset.Position(p)
	return fmt.Sprintf("%s:%d", ps.Filename, ps.Line)
}

func (e *Engine) targetPanicStr(msg string) targetPanic {
	pos := ""
	if e.curFrame != nil {
		pos = e.curFrame.fn.String() + " " + e.posString(e.curFrame.pos)
	}
	return targetPanic{v: Str{S: msg}, msg: msg, pos: pos}
}

// ---- fresh symbols

func (e *Engine) freshName(tag string) string {
	p := e.path
	n := p.fresh[tag]
	p.fresh[tag] = n + 1
	return fmt.Sprintf("%s#%d", tag, n)
}

func (e *Engine) freshVar(tag string, w uint8) *Term {
	v := e.tt.Var(e.freshName(tag), w)
	e.path.vars = append(e.path.vars, v)
	return v
}

// ---- path condition

// ---- byte domains: conditions over a single 8-bit variable that occurs in no multi-variable
// path condition are decided by evaluating them on the variable's remaining value set (exact,
// no solver call). This is what parsers branch on almost exclusively.

type byteSet [4]uint64

func (s *byteSet) has(k int) bool { return s[k>>6]&(1<<(uint(k)&63)) != 0 }
func (s *byteSet) empty() bool    { return s[0]|s[1]|s[2]|s[3] == 0 }

var fullByteSet = byteSet{^uint64(0), ^uint64(0), ^uint64(0), ^uint64(0)}

func (e *Engine) domOf(v *Term) *byteSet {
	p := e.path
	if d, ok := p.dom[v]; ok {
		return d
	}
	return &fullByteSet
}

// truthSet returns the subset of dom on which c (single variable v) is true.
func truthSet(c *Term, v *Term, dom *byteSet) byteSet {
	var out byteSet
	env := map[string]uint64{}
	for k := 0; k < 256; k++ {
		if !dom.has(k) {
			continue
		}
		env[v.name] = uint64(k)
		if Eval(c, env, map[*Term]uint64{}) != 0 {
			out[k>>6] |= 1 << (uint(k) & 63)
		}
	}
	return out
}

func (e *Engine) domainEligible(c *Term) *Term {
	v := c.sv
	if v == nil || v.w != 8 || c.size > 400 || e.path.tainted[v] {
		return nil
	}
	return v
}

// domainFeasible decides sat(pc ∧ c) by the byte domain when c is eligible.
func (e *Engine) domainFeasible(c *Term) (Result, map[string]uint64, bool) {
	v := e.domainEligible(c)
	if v == nil {
		return Unknown, nil, false
	}
	dom := e.domOf(v)
	ts := truthSet(c, v, dom)
	if ts.empty() {
		return Unsat, nil, true
	}
	e.solver.Stats.ModelHit++
	p := e.path
	if p.model == nil {
		return Sat, nil, true
	}
	// patch the cached witness: v is independent of every other path condition
	k := 0
	for ; k < 256; k++ {
		if ts.has(k) {
			break
		}
	}
	if cur, ok := p.model[v.name]; ok && ts.has(int(cur&0xff)) {
		return Sat, p.model, true
	}
	m := make(map[string]uint64, len(p.model)+1)
	for n, x := range p.model {
		m[n] = x
	}
	m[v.name] = uint64(k)
	return Sat, m, true
}

func (e *Engine) taint(c *Term) {
	p := e.path
	if p.taintSeen[c] {
		return
	}
	p.taintSeen[c] = true
	var vs []*Term
	Vars(c, map[*Term]bool{}, &vs)
	for _, v := range vs {
		p.tainted[v] = true
	}
}

func (e *Engine) addPC(c *Term) {
	p := e.path
	if c.IsTrue() || p.pcSet[c] {
		return
	}
	if c.mv {
		e.taint(c)
	} else if v := e.domainEligible(c); v != nil {
		ts := truthSet(c, v, e.domOf(v))
		p.dom[v] = &ts
	} else if c.sv != nil {
		p.tainted[c.sv] = true // too large to evaluate: leave this variable to the solver
	}
	p.pc = append(p.pc, c)
	p.pcSet[c] = true
	// split conjunctions into the known set for syntactic implication
	if c.op == OpAnd {
		e.noteKnown(c)
	}
	if p.model != nil {
		if Eval(c, p.model, map[*Term]uint64{}) == 0 {
			p.model = nil
		}
	}
}

func (e *Engine) noteKnown(c *Term) {
	if c.op == OpAnd {
		e.noteKnown(c.a)
		e.noteKnown(c.b)
		return
	}
	e.path.pcSet[c] = true
}

func (e *Engine) known(c *Term) (val bool, ok bool) {
	if c.IsConst() {
		return c.IsTrue(), true
	}
	p := e.path
	if p.pcSet[c] {
		return true, true
	}
	if p.pcSet[e.tt.Not(c)] {
		return false, true
	}
	return false, false
}

// check asks the primary solver and, on unknown/time-out, the fallback back ends (other solver
// implementations, long-lived, started lazily). A Sat model from a fallback is re-validated.
var (
	qstatOn = os.Getenv("VERIF_QSTAT") != ""
	qstatMu sync.Mutex
	qstat   = map[string]int{}
)

// DumpQStat prints the 25 source positions that issued the most solver queries (debugging aid).
func DumpQStat() {
	if !qstatOn {
		return
	}
	type kv struct {
		k string
		n int
	}
	var l []kv
	for k, n := range qstat {
		l = append(l, kv{k, n})
	}
	sort.Slice(l, func(i, j int) bool { return l[i].n > l[j].n })
	for i := 0; i < len(l) && i < 25; i++ {
		fmt.Fprintf(os.Stderr, "qstat %8d %s\n", l[i].n, l[i].k)
	}
}

func (e *Engine) check(extra []*Term) (Result, map[string]uint64) {
	p := e.path
	if qstatOn && e.curFrame != nil {
		k := e.curFrame.fn.String() + " " + e.posString(e.curFrame.pos)
		qstatMu.Lock()
		qstat[k]++
		qstatMu.Unlock()
	}
	r, m := e.solver.Check(p.pc, extra, p.vars)
	if r != Unknown {
		return r, m
	}
	if len(e.cfg.Fallbacks) > 0 {
		t0 := time.Now()
		r2, m2, who := OneShotRace(e.cfg.Fallbacks, p.pc, extra, p.vars, e.cfg.OneShotS)
		e.solver.Stats.Fallback++
		e.solver.Stats.TimeS += time.Since(t0).Seconds()
		if debugSlow {
			fmt.Fprintf(os.Stderr, "one-shot race: %s by %q in %.1fs%s\n", r2, who, time.Since(t0).Seconds(), e.where())
		}
		if r2 == Unsat {
			e.solver.Stats.Unknown--
			e.solver.Stats.Unsat++
			return Unsat, nil
		}
		if r2 == Sat && m2 != nil && e.modelSatisfiesPC(m2) {
			ok := true
			memo := map[*Term]uint64{}
			for _, x := range extra {
				if Eval(x, m2, memo) == 0 {
					ok = false
				}
			}
			if ok {
				e.solver.Stats.Unknown--
				e.solver.Stats.Sat++
				return Sat, m2
			}
		}
	}
	if d := os.Getenv("VERIF_DUMP_UNKNOWN"); d != "" {
		os.MkdirAll(d, 0o755)
		os.WriteFile(fmt.Sprintf("%s/unknown-%d-%d.smt2", d, e.id, e.solver.Stats.Queries), []byte(StandaloneSMT(p.pc, extra)), 0o644)
	}
	return Unknown, nil
}

// feasible reports whether pc ∧ c is satisfiable; on Sat it may return a model.
func (e *Engine) feasible(c *Term) (Result, map[string]uint64) {
	p := e.path
	if c.IsTrue() {
		return Sat, p.model
	}
	if c.IsFalse() {
		return Unsat, nil
	}
	if p.model != nil && Eval(c, p.model, map[*Term]uint64{}) != 0 {
		e.solver.Stats.ModelHit++
		return Sat, p.model
	}
	if r, m, ok := e.domainFeasible(c); ok {
		return r, m
	}
	// make sure vars of c are in the var list (they are, all created through freshVar)
	r, m := e.check([]*Term{c})
	return r, m
}

// Decide forks on a symbolic boolean; returns the branch taken on this path.
func (e *Engine) Decide(c *Term) bool {
	if v, ok := e.known(c); ok {
		return v
	}
	p := e.path
	idx := len(p.decisions)
	if idx < len(p.prefix) {
		d := p.prefix[idx]
		p.decisions = append(p.decisions, d)
		if d.N == 1 { // forced at discovery time: implied by pc, not a fork
			if d.Pick == 0 {
				p.pcSet[c] = true
				return true
			}
			p.pcSet[e.tt.Not(c)] = true
			return false
		}
		if d.Pick == 0 {
			e.addPC(c)
			return true
		}
		e.addPC(e.tt.Not(c))
		return false
	}
	nc := e.tt.Not(c)
	rt, mt := e.feasible(c)
	if rt == Unknown {
		panic(boundErr{"solver unknown on branch feasibility" + e.where() + " " + e.solver.lastErr})
	}
	if rt == Unsat {
		// pc is feasible, so ¬c holds on every model: record as implied (forced decision)
		p.pcSet[nc] = true
		p.decisions = append(p.decisions, Decision{N: 1, Pick: 1})
		return false
	}
	rf, mf := e.feasible(nc)
	if rf == Unknown {
		panic(boundErr{"solver unknown on branch feasibility" + e.where() + " " + e.solver.lastErr})
	}
	if rf == Unsat {
		p.pcSet[c] = true
		p.decisions = append(p.decisions, Decision{N: 1, Pick: 0})
		if p.model == nil {
			p.model = mt
		}
		return true
	}
	// both feasible: take true now, schedule false
	alt := make([]Decision, idx+1)
	copy(alt, p.decisions)
	alt[idx] = Decision{N: 2, Pick: 1}
	e.pending = append(e.pending, WorkItem{Prefix: alt, Model: mf})
	p.decisions = append(p.decisions, Decision{N: 2, Pick: 0})
	e.addPC(c)
	if p.model == nil {
		p.model = mt
	}
	return true
}

// Choose forks n ways unconditionally (all alternatives are feasible by construction).
func (e *Engine) Choose(n int) int {
	if n <= 1 {
		return 0
	}
	p := e.path
	idx := len(p.decisions)
	if idx < len(p.prefix) {
		d := p.prefix[idx]
		p.decisions = append(p.decisions, d)
		return d.Pick
	}
	for k := n - 1; k >= 1; k-- {
		alt := make([]Decision, idx+1)
		copy(alt, p.decisions)
		alt[idx] = Decision{N: n, Pick: k}
		e.pending = append(e.pending, WorkItem{Prefix: alt, Model: p.model})
	}
	p.decisions = append(p.decisions, Decision{N: n, Pick: 0})
	return 0
}

// Concretize returns a concrete value for t, forking over its feasible values in [lo,hi] (signed
// interpretation when signed). Values outside are the caller's business (it must have decided
// the range check before).
func (e *Engine) Concretize(t *Term, what string) uint64 {
	if t.IsConst() {
		return t.val
	}
	p := e.path
	for n := 0; ; n++ {
		if n > e.cfg.Limits.MaxConcretize {
			panic(boundErr{fmt.Sprintf("more than %d feasible values for symbolic %s%s", e.cfg.Limits.MaxConcretize, what, e.where())})
		}
		idx := len(p.decisions)
		var v uint64
		if idx < len(p.prefix) {
			v = p.prefix[idx].Val
		} else {
			r, m := e.feasible(e.tt.True)
			if r != Sat || m == nil {
				r, m = e.solver.Check(p.pc, nil, p.vars)
				if r != Sat {
					panic(boundErr{"solver " + r.String() + " while concretising" + e.where()})
				}
				p.model = m
			}
			v = Eval(t, m, map[*Term]uint64{})
		}
		c := e.tt.Eq(t, e.tt.Const(t.w, v))
		if idx < len(p.prefix) {
			d := p.prefix[idx]
			p.decisions = append(p.decisions, d)
			if d.N == 1 {
				p.pcSet[c] = true
				return v
			}
			if d.Pick == 0 {
				e.addPC(c)
				return v
			}
			e.addPC(e.tt.Not(c))
			continue
		}
		// frontier: is t != v feasible?
		nc := e.tt.Not(c)
		rf, mf := e.feasible(nc)
		if rf == Unknown {
			panic(boundErr{"solver unknown while concretising" + e.where()})
		}
		if rf == Unsat {
			p.pcSet[c] = true
			p.decisions = append(p.decisions, Decision{N: 1, Pick: 0, Val: v})
			return v
		}
		alt := make([]Decision, idx+1)
		copy(alt, p.decisions)
		alt[idx] = Decision{N: 2, Pick: 1, Val: v}
		e.pending = append(e.pending, WorkItem{Prefix: alt, Model: mf})
		p.decisions = append(p.decisions, Decision{N: 2, Pick: 0, Val: v})
		e.addPC(c)
		return v
	}
}

// Assume prunes the path unless c can hold.
func (e *Engine) Assume(c *Term) {
	if c.IsTrue() {
		return
	}
	if v, ok := e.known(c); ok {
		if v {
			return
		}
		panic(pathEnd{"assume"})
	}
	r, m := e.feasible(c)
	switch r {
	case Unsat:
		panic(pathEnd{"assume"})
	case Unknown:
		panic(boundErr{"solver unknown on assume" + e.where()})
	}
	e.addPC(c)
	if e.path.model == nil {
		e.path.model = m
	}
}

func (e *Engine) snapshotInputs(m map[string]uint64) []InputRec {
	memo := map[*Term]uint64{}
	out := make([]InputRec, len(e.path.inputs))
	for i, in := range e.path.inputs {
		o := InputRec{Kind: in.Kind, Tag: in.Tag, N: in.N}
		for _, t := range in.terms {
			o.Vals = append(o.Vals, Eval(t, m, memo))
		}
		out[i] = o
	}
	return out
}

func (e *Engine) recordViolation(label, finding, msg string, m map[string]uint64) {
	key := label + "|" + finding
	e.labelViol[key]++
	if e.labelViol[key] > e.cfg.MaxViolPerLabel {
		return
	}
	if m == nil {
		r, mm := e.solver.Check(e.path.pc, nil, e.path.vars)
		if r != Sat {
			e.res.Incomplete = append(e.res.Incomplete, "no model for violation "+label)
			return
		}
		m = mm
	}
	v := &Violation{Harness: e.res.Name, Label: label, Finding: finding, Msg: msg,
		Inputs: e.snapshotInputs(m), Decisions: append([]Decision{}, e.path.decisions...)}
	if e.curFrame != nil {
		v.Pos = e.posString(e.curFrame.pos)
	}
	e.res.Violations = append(e.res.Violations, v)
}

// Assert checks c on the current path. known (may be nil) is the harness' known-finding
// exclusion predicate with its finding id.
func (e *Engine) Assert(c *Term, label string, known *Term, finding string) {
	e.res.Obligations++
	if v, ok := e.known(c); ok && v {
		e.res.Discharged++
		return
	}
	nc := e.tt.Not(c)
	check := func(extra *Term, fid string) bool {
		q := nc
		if extra != nil {
			q = e.tt.And(nc, extra)
		}
		if q.IsFalse() {
			return true
		}
		key := label + "|" + fid
		if e.labelViol[key] >= e.cfg.MaxViolPerLabel {
			// already reported enough witnesses for this label; do not spend solver time
			e.labelViol[key]++
			return false
		}
		r, m := e.assertQuery(q)
		switch r {
		case Unsat:
			return true
		case Unknown:
			panic(boundErr{"solver unknown on assertion " + label + e.where()})
		}
		e.recordViolation(label, fid, "assertion failed", m)
		return false
	}
	ok := true
	if known != nil && !known.IsFalse() {
		if !check(e.tt.Not(known), "") {
			ok = false
		}
		if !check(known, finding) {
			ok = false
		}
	} else {
		ok = check(nil, "")
	}
	if ok {
		e.res.Discharged++
		// c is implied by pc
		e.path.pcSet[c] = true
		return
	}
	if e.path.replayIn != nil {
		return // concrete run: record the failure and carry on, like the native runtime
	}
	// continue the path under the assumption that the assertion held
	e.Assume(c)
}

func (e *Engine) assertQuery(q *Term) (Result, map[string]uint64) {
	p := e.path
	if p.model != nil && Eval(q, p.model, map[*Term]uint64{}) != 0 {
		return Sat, p.model
	}
	if e.arith != nil {
		// arithmetic class: try cvc5 integer mode first with a short budget, then z3
		r, m := e.arith.Check(p.pc, []*Term{q}, p.vars)
		if r == Unsat {
			return r, nil
		}
		if r == Sat && m != nil && Eval(q, m, map[*Term]uint64{}) != 0 && e.modelSatisfiesPC(m) {
			return r, m
		}
	}
	r, m := e.check([]*Term{q})
	if r == Sat && m != nil {
		if Eval(q, m, map[*Term]uint64{}) == 0 || !e.modelSatisfiesPC(m) {
			return Unknown, nil
		}
	}
	return r, m
}

func (e *Engine) modelSatisfiesPC(m map[string]uint64) bool {
	memo := map[*Term]uint64{}
	for _, c := range e.path.pc {
		if Eval(c, m, memo) == 0 {
			return false
		}
	}
	return true
}

// ---- journal

func (e *Engine) undoAll() {
	for i := len(e.journal) - 1; i >= 0; i-- {
		u := e.journal[i]
		if u.fn != nil {
			u.fn()
		} else {
			*u.cell = u.old
		}
	}
	e.journal = e.journal[:0]
}

func (e *Engine) logUndo(fn func()) {
	if e.journalOn {
		e.journal = append(e.journal, undo{fn: fn})
	}
}

// ---- path driver

func (e *Engine) newPath(w WorkItem) {
	e.path = newPathState()
	e.path.prefix, e.path.model, e.path.replayIn = w.Prefix, w.Model, e.concreteInputs
	// the inherited model only witnesses the prefix' pc once replayed; it is validated lazily:
	// addPC drops it as soon as it falsifies a condition.
}

// RunPath executes the harness entry once along work item w. Returns false if the run must stop.
func (e *Engine) RunPath(entry *ssa.Function, w WorkItem) {
	e.newPath(w)
	e.journalOn = true
	res := e.res
	defer func() {
		r := recover()
		lastFrame := e.curFrame
		e.journalOn = false
		e.undoAll()
		res.Paths++
		res.Steps += int64(e.path.steps)
		if len(e.path.decisions) > res.MaxDepth {
			res.MaxDepth = len(e.path.decisions)
		}
		e.curFrame = nil
		switch r := r.(type) {
		case nil:
			for l := range e.path.reached {
				res.Reached[l]++
			}
		case pathEnd:
			if r.why == "assume" {
				res.Pruned++
			}
		case unsupportedErr:
			res.Incomplete = appendUniq(res.Incomplete, "unsupported: "+r.msg)
		case boundErr:
			res.Incomplete = appendUniq(res.Incomplete, "bound: "+r.msg)
		case targetPanic:
			// uncaught panic of the code under test
			e.recordViolation("uncaught-panic", "", r.msg+" @ "+r.pos, nil)
		default:
			// a Go run-time panic inside the engine itself: never a pass, never a finding
			wh := ""
			if fr := lastFrame; fr != nil {
				wh = " in " + fr.fn.String() + " at " + e.posString(fr.pos)
			}
			res.Incomplete = appendUniq(res.Incomplete, fmt.Sprintf("engine error: %v%s", r, wh))
			if os.Getenv("VERIF_DEBUG") != "" {
				fmt.Fprintf(os.Stderr, "engine error: %v%s\n%s\n", r, wh, debug.Stack())
			}
		}
	}()
	e.callFunction(nil, entry, nil, nil, token.NoPos)
}

func appendUniq(l []string, s string) []string {
	if len(s) > 400 {
		s = s[:400]
	}
	for _, x := range l {
		if x == s {
			return l
		}
	}
	if len(l) < 40 {
		l = append(l, s)
	}
	return l
}

func sortedKeys(m map[string]bool) []string {
	out := make([]string, 0, len(m))
	for k := range m {
		out = append(out, k)
	}
	sort.Strings(out)
	return out
}

func shortFn(name string) string {
	return strings.ReplaceAll(name, "github.com/influxdata/influxdb/", "")
}
