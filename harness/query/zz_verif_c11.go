//go:build verif_harness

package query

// C11: mechanisms that make a SELECT result independent of the physical layout: time-window
// assignment (IteratorOptions.Window) and partial aggregation commuting with partitioning and
// ordering (the reduce functions that run once per shard and once more on the merged stream).

import (
	"time"

	"github.com/influxdata/influxql"
)

func init() {
	vRegister("VerifHarness_C11_Window", VerifHarness_C11_Window)
	vRegister("VerifHarness_C11_ReducePartition", VerifHarness_C11_ReducePartition)
}

var vC11Durations = []time.Duration{time.Nanosecond, time.Second, time.Minute, time.Hour, 24 * time.Hour, 7 * 24 * time.Hour}

// GROUP BY time(d, offset): every timestamp lies in exactly one window [start,end) of length d,
// aligned to offset modulo d; windows are monotone in t.
func VerifHarness_C11_Window() {
	d := vC11Durations[vChoice("interval", len(vC11Durations))]
	off := time.Duration(vRange("offset", 0, int64(d)-1))
	if d == time.Nanosecond {
		off = 0
	}
	opt := IteratorOptions{Interval: Interval{Duration: d, Offset: off}}
	// timestamps inside a window of +-4 intervals around the epoch or at either end of the range
	w := 4 * int64(d)
	var t int64
	switch vChoice("timeWindow", 3) {
	case 0:
		t = vRange("t", -w, w)
	case 1:
		t = vRange("t", influxql.MinTime, influxql.MinTime+w)
	default:
		t = vRange("t", influxql.MaxTime-w, influxql.MaxTime)
	}
	start, end := opt.Window(t)
	// known finding C11-F1: with a non-zero offset, `t -= offset` / `end += offset` wrap around for
	// timestamps within interval+offset of the ends of the representable range
	nearEdge := off != 0 && (t < influxql.MinTime+int64(d)+int64(off) || t > influxql.MaxTime-int64(d)-int64(off))
	vAssertKF(start <= t, "C11.window-contains-timestamp", nearEdge, "C11-F1")
	vAssertKF(t < end || end == influxql.MaxTime, "C11.window-contains-timestamp", nearEdge, "C11-F1")
	clampedLo := start == influxql.MinTime || start == influxql.MinTime+int64(off)
	clampedHi := end == influxql.MaxTime || end == influxql.MaxTime+int64(off)
	if !clampedLo && !clampedHi {
		vAssert(end-start == int64(d), "C11.window-has-interval-length")
		m := (start - int64(off)) % int64(d)
		vAssert(m == 0, "C11.window-aligned-to-offset")
	}
	// the same window for every timestamp inside it (a point's bucket does not depend on which
	// point of the bucket is looked at)
	t2 := vInt64("t2")
	vAssume(start <= t2 && t2 < end && t2 >= influxql.MinTime && t2 <= influxql.MaxTime)
	s2, e2 := opt.Window(t2)
	if !clampedLo && !clampedHi {
		vAssert(s2 == start && e2 == end, "C11.window-is-a-function-of-the-bucket")
	}
	vObserve("start", start)
	vObserve("end", end)
	vReach("C11.window.end")
}

type vC11Fn func(prev, curr *IntegerPoint) (int64, int64, []interface{})

func vC11Fold(fn vC11Fn, pts []IntegerPoint) (int64, int64, bool) {
	var prev *IntegerPoint
	for i := range pts {
		t, v, _ := fn(prev, &pts[i])
		prev = &IntegerPoint{Time: t, Value: v}
	}
	if prev == nil {
		return 0, 0, false
	}
	return prev.Time, prev.Value, true
}

// reduce(all) == combine(reduce(A), reduce(B)) for every split into partitions A and B (shards)
// and every order inside them; count is combined with sum, as the merged call iterator does.
func VerifHarness_C11_ReducePartition() {
	kind := vChoice("function", 6)
	fns := []vC11Fn{IntegerCountReduce, IntegerSumReduce, IntegerMinReduce, IntegerMaxReduce, IntegerFirstReduce, IntegerLastReduce}
	fn := fns[kind]
	combine := fn
	if kind == 0 {
		combine = IntegerSumReduce
	}
	max := 3
	if vThorough() {
		max = 4
	}
	n := vLen("points", 1, max)
	pts := make([]IntegerPoint, n)
	for i := range pts {
		pts[i] = IntegerPoint{Time: vInt64("t"), Value: vInt64("v")}
	}
	// whole stream, in the given order and reversed
	wt, wv, _ := vC11Fold(fn, pts)
	rev := make([]IntegerPoint, n)
	for i := range pts {
		rev[n-1-i] = pts[i]
	}
	rt, rv, _ := vC11Fold(fn, rev)
	vAssert(wv == rv, "C11.aggregate-independent-of-point-order")
	if kind >= 2 {
		vAssert(wt == rt, "C11.selector-time-independent-of-point-order")
	}
	// split into two shards
	var a, b []IntegerPoint
	for i := range pts {
		if vChoice("shard", 2) == 0 {
			a = append(a, pts[i])
		} else {
			b = append(b, pts[i])
		}
	}
	at, av, aok := vC11Fold(fn, a)
	bt, bv, bok := vC11Fold(fn, b)
	var parts []IntegerPoint
	if aok {
		parts = append(parts, IntegerPoint{Time: at, Value: av})
	}
	if bok {
		parts = append(parts, IntegerPoint{Time: bt, Value: bv})
	}
	ct, cv, _ := vC11Fold(combine, parts)
	vAssert(cv == wv, "C11.partial-aggregation-commutes-with-partitioning")
	if kind >= 2 {
		vAssert(ct == wt, "C11.selector-time-commutes-with-partitioning")
	}
	vObserve("value", wv)
	vReach("C11.reduce.end")
}
