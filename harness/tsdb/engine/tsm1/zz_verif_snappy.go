//go:build verif_harness

package tsm1

// Engine-side model of github.com/golang/snappy (assembly in the real build): identity coding
// with a uvarint length header, so that a truncated or corrupted input is detected the way the
// real decoder detects it (length mismatch ⇒ ErrCorrupt). Natively the real snappy runs.

import (
	"encoding/binary"
	"errors"

	"github.com/golang/snappy"
)

var vSnappyErrCorrupt = errors.New("snappy: corrupt input")

// vSnappyFacade compresses like WAL.writeToLog (snappy.Encode is replaced in the engine).
func vSnappyFacade(raw []byte) []byte { return snappy.Encode(nil, raw) }

func vSnappyMaxEncodedLen(srcLen int) int { return srcLen + binary.MaxVarintLen64 }

func vSnappyEncode(dst, src []byte) []byte {
	n := vSnappyMaxEncodedLen(len(src))
	if len(dst) < n {
		dst = make([]byte, n)
	}
	k := binary.PutUvarint(dst, uint64(len(src)))
	copy(dst[k:], src)
	return dst[:k+len(src)]
}

func vSnappyDecodedLen(src []byte) (int, error) {
	v, n := binary.Uvarint(src)
	if n <= 0 || v > 0xffffffff {
		return 0, vSnappyErrCorrupt
	}
	return int(v), nil
}

func vSnappyDecode(dst, src []byte) ([]byte, error) {
	v, n := binary.Uvarint(src)
	if n <= 0 || v > 0xffffffff {
		return nil, vSnappyErrCorrupt
	}
	dLen := int(v)
	if len(src)-n != dLen {
		return nil, vSnappyErrCorrupt
	}
	if dLen <= len(dst) {
		dst = dst[:dLen]
	} else {
		dst = make([]byte, dLen)
	}
	copy(dst, src[n:])
	return dst, nil
}
