//go:build verif_harness

package tsdb

// Engine-side abstraction of tsdb.SeriesIDSet (a roaring bitmap; heap-backed containers are out
// of the encoder's reach): a finite list of (id, member) pairs with symbolic ids and symbolic
// membership, all operations fork-free. The fidelity of the bitmap library to set semantics is
// assumed (third-party, like snappy); natively the real SeriesIDSet runs.

type vSetEntry struct {
	id uint64
	in bool
}

var vSetModel = map[*SeriesIDSet]*[]vSetEntry{}

func vSetEntries(s *SeriesIDSet) *[]vSetEntry {
	e := vSetModel[s]
	if e == nil {
		e = &[]vSetEntry{}
		vSetModel[s] = e
	}
	return e
}

func vSetNew(a ...uint64) *SeriesIDSet {
	s := &SeriesIDSet{}
	e := vSetEntries(s)
	for _, id := range a {
		*e = append(*e, vSetEntry{id, true})
	}
	return s
}

func vSetContains(s *SeriesIDSet, id uint64) bool {
	r := false
	for _, x := range *vSetEntries(s) {
		r = vOr(r, vAnd(x.in, x.id == id))
	}
	return r
}

func vSetAdd(s *SeriesIDSet, id uint64) {
	e := vSetEntries(s)
	*e = append(*e, vSetEntry{id, true})
}

func vSetRemove(s *SeriesIDSet, id uint64) {
	e := *vSetEntries(s)
	for i := range e {
		e[i].in = vAnd(e[i].in, e[i].id != id)
	}
}

func vSetMerge(s *SeriesIDSet, others ...*SeriesIDSet) {
	e := vSetEntries(s)
	for _, o := range others {
		*e = append(*e, *vSetEntries(o)...)
	}
}

func vSetDiff(s *SeriesIDSet, other *SeriesIDSet) {
	e := *vSetEntries(s)
	for i := range e {
		e[i].in = vAnd(e[i].in, !vSetContains(other, e[i].id))
	}
}

func vSetClone(s *SeriesIDSet) *SeriesIDSet {
	c := &SeriesIDSet{}
	e := vSetEntries(c)
	*e = append(*e, *vSetEntries(s)...)
	return c
}

// VerifSetFromFlags builds the set {ids[i] | in[i]}. Natively by adding the members; in the engine
// (replaced by VerifSetFromFlagsModel) without forking over the flags.
func VerifSetFromFlags(ids []uint64, in []bool) *SeriesIDSet {
	s := NewSeriesIDSet()
	for i, id := range ids {
		if in[i] {
			s.Add(id)
		}
	}
	return s
}

func VerifSetFromFlagsModel(ids []uint64, in []bool) *SeriesIDSet {
	s := &SeriesIDSet{}
	e := vSetEntries(s)
	for i, id := range ids {
		*e = append(*e, vSetEntry{id, in[i]})
	}
	return s
}

func vSetForEach(s *SeriesIDSet, f func(id uint64)) {
	e := *vSetEntries(s)
	for i, x := range e {
		dup := false
		for _, y := range e[:i] {
			if y.in && y.id == x.id {
				dup = true
			}
		}
		if x.in && !dup {
			f(x.id)
		}
	}
}

func vSetAndNot(s *SeriesIDSet, other *SeriesIDSet) *SeriesIDSet {
	c := vSetClone(s)
	vSetDiff(c, other)
	return c
}
